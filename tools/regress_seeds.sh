#!/bin/bash
# usage: tools/regress_seeds.sh <workers> <budget-s> <out-file> <seeded dirs...>
# Re-runs, for each stored seeded change, the check of the property it breaks against a tree with the change applied -
# on a private worktree of /repo and a private copy of /verif (so it can run next to other work). One line per change.
w=$1; budget=$2; out=$3; shift 3
export GOFLAGS=-mod=mod GOPROXY=off
rv=/tmp/regr_verif; rr=/tmp/regr_repo
rm -rf $rv; mkdir -p $rv; rsync -a --exclude .work --exclude replays --exclude .git /verif/ $rv/
git -C /repo worktree remove --force $rr 2>/dev/null; rm -rf $rr; git -C /repo worktree add --detach $rr HEAD >/dev/null 2>&1 || exit 2
cd $rv && go build -o bin/check ./cmd/check || exit 2
for d in "$@"; do
  d=$(cd /verif && realpath $d); tag=$(basename $d)
  prop=$(python3 -c "import json;print(json.load(open('$d/meta.json'))['breaks'])")
  (cd $rr && git apply $d/patch.diff) || { echo "$tag $prop APPLY-FAILED" >> $out; continue; }
  res=$(VERIF_DIR=$rv VERIF_REPO_DIR=$rr ./bin/check $prop --budget $budget --workers $w --no-evidence 2>&1 | grep -a "^VIOLATION\|signature=\|^check\|INFRA" | head -3 | tr '\n' ' ' | cut -c1-360)
  echo "$tag $prop $res" >> $out
  git -C $rr checkout -- . ; git -C $rr clean -fdq
done
git -C /repo worktree remove --force $rr; rm -rf $rv $rr
echo DONE >> $out
