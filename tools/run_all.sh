#!/bin/bash
# usage: run_all.sh [quick|thorough] [seed]   — runs every registered check in /verif against /repo, prints one line per check
tier=${1:-quick}; seed=${2:-1}
cd /verif && go build -o bin/check ./cmd/check || exit 2
rc=0
for p in $(./bin/check list | awk '{print $1}'); do
  out=$(VERIF_SEED=$seed ./bin/check $p --tier $tier 2>&1); c=$?
  echo "$out" | grep -a "^check \|VIOLATION\|KNOWN-FINDING\|INFRA" | cut -c1-300
  [ $c -ne 0 ] && { echo "  -> $p exit $c"; rc=1; }
done
exit $rc
