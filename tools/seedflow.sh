#!/bin/bash
# usage: seedflow.sh <tag> <property> <demo-destination> <go-test-package> <-run regexp> [budget-seconds]
# confirm a sub-agent's seeded change (confirm_seed.sh), run the property's check against it (trymut.sh), remove the agent's worktree
tag=$1; prop=$2; dst=$3; pkg=$4; re=$5; budget=${6:-90}
export GOFLAGS=-mod=mod GOPROXY=off
cd /verif
tools/confirm_seed.sh $tag /tmp/wt_$tag $dst $pkg "$re" 2>&1 | grep -a "CONFIRM\|baseline stable" || exit 1
[ -f seeded/$tag/patch.diff ] || { echo "not stored"; exit 1; }
echo "--- check $prop against seeded/$tag"
tools/trymut.sh $prop $budget seeded/$tag/patch.diff 8
git -C /repo worktree remove --force /tmp/wt_$tag 2>/dev/null; rm -rf /tmp/wt_$tag /tmp/prop_$tag.json /tmp/prompt_$tag.txt
