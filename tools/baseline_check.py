#!/usr/bin/env python3
"""Run the repository's baseline test command (guard off: no overlay, no tags) and compare with /root/.vp/BASELINE.json."""
import json, subprocess, sys, os
base = json.load(open('/root/.vp/BASELINE.json'))
env = dict(os.environ, GOFLAGS='-mod=mod', GOPROXY='off')
p = subprocess.run('go test -mod=mod -json -vet=off -count=1 -timeout 25m ./...', shell=True, cwd=(sys.argv[1] if len(sys.argv)>1 else '/repo'), env=env, capture_output=True, text=True)
passed = set()
for line in p.stdout.splitlines():
    try:
        ev = json.loads(line)
    except Exception:
        continue
    if ev.get('Action') == 'pass' and ev.get('Test'):
        passed.add(ev['Package'] + '::' + ev['Test'])
missing = [t for t in base['stable_pass'] if t not in passed]
print(f"baseline stable tests: {len(base['stable_pass'])}, passing now: {len(base['stable_pass']) - len(missing)}")
for m in missing:
    print('MISSING', m)
sys.exit(1 if missing else 0)
