#!/bin/bash
# usage (inside `vp run --with-repo`): tools/thorough_bg.sh <seed> <workers> [properties...]   (BUDGET=<s> overrides the tier's budget)
# thorough tier of every (or the named) check against the snapshots of /verif and /repo the run was started from
seed=$1; workers=$2; shift 2
export GOFLAGS=-mod=mod GOPROXY=off VERIF_DIR=$PWD VERIF_REPO_DIR=${VP_RUN_REPO:-/repo}
go build -o bin/check ./cmd/check || exit 2
props="$@"; [ -z "$props" ] && props=$(./bin/check list | awk '{print $1}')
rc=0
for p in $props; do
  out=$(VERIF_SEED=$seed ./bin/check $p --tier thorough --workers $workers --no-evidence ${BUDGET:+--budget $BUDGET} 2>&1); c=$?
  echo "$out" | grep -a "^check \|VIOLATION\|KNOWN-FINDING\|INFRA\|NOTE\|signature=" | cut -c1-400
  echo "$out" | grep -a -A3 "signature=" | cut -c1-600 | head -40
  [ $c -ne 0 ] && { echo "  -> $p exit $c"; rc=1; }
done
exit $rc
