#!/bin/bash
# usage: mkwt.sh <property-id> <tag>   — scratch worktree /tmp/wt_<tag> of /repo HEAD for a sub-agent, with the VRF stand-in (untracked) and the property text
set -eu
id=$1; tag=$2; wt=/tmp/wt_$tag
git -C /repo worktree remove --force $wt 2>/dev/null || true
rm -rf $wt
git -C /repo worktree add --detach $wt HEAD >/dev/null 2>&1
mkdir -p $wt/pkg/Rust-VRF/vrf-func-ffi/src && cp /verif/overlay/vrf/vrf.go $wt/pkg/Rust-VRF/vrf-func-ffi/src/vrf.go
python3 - "$id" "$tag" <<'P'
import json,sys
for l in open('/verif/properties.jsonl'):
    p=json.loads(l)
    if p['id']==sys.argv[1]:
        p.pop('hook_needed',None)
        if isinstance(p.get('anchors'),dict): p['anchors'].pop('hook_needed',None)
        json.dump(p,open('/tmp/prop_%s.json'%sys.argv[2],'w'),indent=1)
P
echo $wt
