import json,sys
T='''You are helping test a verification effort for the Go repository "New-JAMneration/JAM-Protocol" (a Polkadot JAM node, Gray Paper v0.7.2). You have your OWN scratch git worktree of the repository at /tmp/wt_{tag} (work ONLY there; never touch /repo or /verif, never read anything under /verif).

Environment: every shell command needs `export GOFLAGS=-mod=mod GOPROXY=off` (no network). The Go toolchain (go1.25.5) is picked automatically from the module cache; do NOT set GOTOOLCHAIN. The Rust VRF submodule is absent; an untracked pure-Go stand-in has been placed at /tmp/wt_{tag}/pkg/Rust-VRF/vrf-func-ffi/src/vrf.go so that all packages compile - leave it alone and do not include it in your patch. Conformance test vectors are absent offline, so tests that need them are skipped or fail identically with and without your change; only tests that pass BEFORE your change matter.

The property under test (read /tmp/prop_{tag}.json for the full text incl. the anchored files and mechanisms):
"{id} {title}: {statement}"
Code: {files}.

YOUR TASK: produce ONE realistic change to the repository's non-test .go source that BREAKS this property while (a) the whole repository still compiles (`go build ./...`) and (b) every existing test that passes before your change still passes after it (at least `go test -vet=off -count=1` of the packages you touch and of their direct users; record which tests pass before and after). The change must look like a plausible refactoring / optimisation / slip a developer could introduce, and it must need something SPECIFIC to manifest - {needs} - NOT something ordinary use would expose at once. Prefer a change whose effect is visible in the behaviour the property talks about (not in an internal detail), and that is not neutralised by some other self-check in the code.

An earlier tester already produced this change, so do something DIFFERENT in mechanism and location: {prior}.

Also write a DEMONSTRATION: a Go test file ({demo}) that deterministically FAILS with your change and PASSES without it. It must observe a violation of the property as stated, not some internal detail.

Deliverables, all inside /tmp/wt_{tag}:
1. /tmp/wt_{tag}/patch.diff - `git diff` of the source change only (no test file, no vrf stand-in).
2. /tmp/wt_{tag}/demo_test.go.txt - a copy of the demonstration test file (keep the real one in place in its package too), and state in NOTES.md the repo-relative path where it lives and the `go test` command to run it.
3. /tmp/wt_{tag}/NOTES.md - what the change is, why it breaks the property, what exactly it needs in order to manifest, the exact commands you ran and their outcome: build, existing tests with the change (pass), demo with the change (fail), demo without the change (pass - use `git apply -R patch.diff` to check, then re-apply).
Leave the worktree with the change applied. Report back a short summary (what you changed, what it needs to manifest, where the demo lives and how to run it, and whether all four checks came out as required). If after serious effort you cannot find a change that satisfies all constraints, say so honestly and describe the closest attempt.'''
P={}
for l in open('/verif/properties.jsonl'):
    p=json.loads(l); P[p['id']]=p
spec=json.load(open('/verif/.work/prompts/spec.json'))
tag=sys.argv[1]; s=spec[tag]; p=P[s['id']]
print(T.format(tag=tag,id=p['id'],title=p['title'],statement=p['statement'],files=', '.join(p['anchors']['files']),needs=s['needs'],prior=s['prior'],demo=s['demo']))
