#!/bin/bash
# usage: confirm_seed.sh <id> <agent-worktree> <demo-destination-relative-to-repo> <go-test-package> [<-run regexp>]
# Confirms a seeded change independently of the sub-agent, in a FRESH scratch worktree of /repo:
#   1. the patch applies, the repository builds, the pinned test suite result is unchanged (tools/baseline_check.py)
#   2. the demonstration fails with the change and passes without it
# and stores it as /verif/seeded/<id>/{patch.diff,demo_test.go.txt,NOTES.md}. The scratch worktree is removed.
set -u
id=$1; src=$2; demodst=$3; pkg=$4; runre=${5:-.}
export GOFLAGS=-mod=mod GOPROXY=off JAM_FUZZ=1
wt=/tmp/confirm_$id
git -C /repo worktree remove --force $wt 2>/dev/null
git -C /repo worktree add --detach $wt HEAD >/dev/null 2>&1 || { echo "cannot create worktree"; exit 2; }
trap 'git -C /repo worktree remove --force '$wt' 2>/dev/null; rm -rf '$wt'' EXIT
cd $wt
git apply $src/patch.diff || { echo "CONFIRM: patch does not apply"; exit 1; }
if [ "${SKIP_BASELINE:-0}" != 1 ]; then
  # the pinned suite, exactly as the baseline runs it (no VRF stand-in in the tree)
  python3 /verif/tools/baseline_check.py $wt > /tmp/confirm_$id.baseline 2>&1; brc=$?
  tail -2 /tmp/confirm_$id.baseline
  [ $brc = 0 ] || { echo "CONFIRM: baseline suite changed with the patch"; exit 1; }
fi
mkdir -p $wt/pkg/Rust-VRF/vrf-func-ffi/src && cp /verif/overlay/vrf/vrf.go $wt/pkg/Rust-VRF/vrf-func-ffi/src/vrf.go
go build ./... || { echo "CONFIRM: does not build"; exit 1; }
echo "CONFIRM: builds (with the VRF stand-in, all packages)"
mkdir -p $(dirname $wt/$demodst) && cp $src/demo_test.go.txt $wt/$demodst
go test -vet=off -count=1 -run "$runre" $pkg > /tmp/confirm_$id.with 2>&1; with=$?
git apply -R $src/patch.diff
go test -vet=off -count=1 -run "$runre" $pkg > /tmp/confirm_$id.without 2>&1; without=$?
echo "CONFIRM: demo with change rc=$with, without change rc=$without"
tail -5 /tmp/confirm_$id.with
[ $with != 0 ] && [ $without = 0 ] || { echo "CONFIRM: demo does not discriminate"; tail -20 /tmp/confirm_$id.without; exit 1; }
mkdir -p /verif/seeded/$id
cp $src/patch.diff /verif/seeded/$id/patch.diff
cp $src/demo_test.go.txt /verif/seeded/$id/demo_test.go.txt
[ -f $src/NOTES.md ] && cp $src/NOTES.md /verif/seeded/$id/NOTES.md
echo "CONFIRM: ok, stored in /verif/seeded/$id"
