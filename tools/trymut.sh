#!/bin/bash
# usage: trymut.sh <property> <budget-seconds> <patch.diff>   — apply patch to /repo, run the check, always revert
prop=$1; budget=$2; patch=$3
cd /repo || exit 2
if [ -n "$(git status --porcelain)" ]; then echo "repo dirty, refusing"; exit 2; fi
case "$patch" in /*) ;; *) patch=/verif/$patch;; esac; git apply "$patch" || { echo "patch does not apply"; exit 2; }
cd /verif && ./bin/check "$prop" --budget "$budget" --no-evidence 2>&1 | tail -${4:-8}
rc=$?
git -C /repo checkout -- . ; git -C /repo clean -fdq
git -C /repo status --short
