// Package simrt is the scheduler runtime that instrumented repository code
// calls into (yield, lock, go, select and map-order seams). With no scheduler
// attached every entry point is a no-op / plain pass-through, so instrumented
// code behaves exactly like the original.
//
// Model: real goroutines inside a testing/synctest bubble, at most one of them
// *released* at a time. A goroutine reaching a seam parks on its private wake
// channel (a durable block for synctest); the harness' scheduler loop calls
// Quiesce (synctest.Wait), looks at who is parked, and releases exactly one –
// chosen from the tape. Goroutines woken as a side effect of the released
// goroutine's actions (channel hand-off, timer, connection event) call Woke as
// their first action and park again, so between two decisions at most one
// goroutine mutates shared state.
//
// Injected by overlay as github.com/New-JAMneration/JAM-Protocol/internal/zzverif/simrt.
package simrt

import (
	"fmt"
	"iter"
	"runtime"
	"sort"
	"strconv"
	"sync"
	"sync/atomic"
	"testing/synctest"
	"time"
)

// State of a simulated goroutine as seen at a quiescent point.
type State int

const (
	Running  State = iota // released (or woken and not yet parked); at a quiescent point: durably blocked in a real operation
	Parked                // at a yield seam: runnable when released
	LockWait              // waiting for a simulated mutex
	Exited
)

func (s State) String() string {
	return [...]string{"blocked", "parked", "lockwait", "exited"}[s]
}

// G is one simulated goroutine.
type G struct {
	ID    string // logical id, deterministic: creation path
	Name  string
	Seq   int // creation index
	State State
	Site  string // last seam reached
	Tag   any    // harness data

	wake     chan struct{}
	waitLock any
	waitRead bool
	kids     int
	sched    *Sched
	Steps    int
}

type lockState struct {
	owner   *G
	readers map[*G]int
}

// Sched is one simulation's scheduler state.
type Sched struct {
	mu     sync.Mutex
	byGoid map[int64]*G
	all    []*G
	locks  map[any]*lockState
	wakeCh chan struct{}
	root   G

	// Choose draws from the tape; only the released goroutine or the scheduler loop may call it.
	Choose func(n int, label string) int
	// Trace, if set, receives seam events (never draws from the tape).
	Trace func(format string, a ...any)

	// MapOrder, if set, chooses the permutation applied to sorted map keys (nil result = keep sorted).
	MapOrder func(n int, site string) []int

	// PoolChoice, if set, owns every sync.Pool behind a pool seam: for Get it is called with n = 1 + the
	// number of objects the pool currently holds and returns 0 for "a fresh object" or i for "pooled
	// object i-1 (oldest first)"; for Put it is called with n = 0 and returns 0 to keep the object or
	// anything else to lose it (as the garbage collector may).
	PoolChoice func(n int, site string) int
	pools      map[*sync.Pool][]any
	PoolFresh  int64
	PoolReused int64
	PoolLost   int64

	Yields    int64
	Wakes     int64
	LockWaits int64
}

// PoolGet is the pool seam for p.Get().
func PoolGet(p *sync.Pool, site string) any {
	s := active.Load()
	if s == nil || s.PoolChoice == nil {
		return p.Get()
	}
	s.mu.Lock()
	held := s.pools[p]
	s.mu.Unlock()
	c := s.PoolChoice(len(held)+1, site)
	if c <= 0 || c > len(held) {
		s.PoolFresh++
		if p.New == nil {
			return nil
		}
		return p.New()
	}
	s.mu.Lock()
	held = s.pools[p]
	x := held[c-1]
	s.pools[p] = append(append([]any(nil), held[:c-1]...), held[c:]...)
	s.mu.Unlock()
	s.PoolReused++
	return x
}

// PoolPut is the pool seam for p.Put(x).
func PoolPut(p *sync.Pool, x any, site string) {
	s := active.Load()
	if s == nil || s.PoolChoice == nil {
		p.Put(x)
		return
	}
	if s.PoolChoice(0, site) != 0 {
		s.PoolLost++
		return
	}
	s.mu.Lock()
	if s.pools == nil {
		s.pools = map[*sync.Pool][]any{}
	}
	s.pools[p] = append(s.pools[p], x)
	s.mu.Unlock()
}

var active atomic.Pointer[Sched]

// New creates a scheduler. Must be called inside the synctest bubble.
func New(choose func(n int, label string) int) *Sched {
	s := &Sched{byGoid: map[int64]*G{}, locks: map[any]*lockState{}, wakeCh: make(chan struct{}, 1), Choose: choose}
	s.root.ID = "r"
	s.root.sched = s
	return s
}

// Attach makes s the scheduler that seams talk to. Detach removes it.
func (s *Sched) Attach() { active.Store(s) }
func (s *Sched) Detach() { active.CompareAndSwap(s, nil) }

// Active reports whether a scheduler is attached.
func Active() bool { return active.Load() != nil }

func goid() int64 {
	var buf [64]byte
	n := runtime.Stack(buf[:], false)
	// "goroutine 123 ["
	b := buf[10:n]
	i := 0
	for i < len(b) && b[i] >= '0' && b[i] <= '9' {
		i++
	}
	id, _ := strconv.ParseInt(string(b[:i]), 10, 64)
	return id
}

func (s *Sched) self() *G {
	id := goid()
	s.mu.Lock()
	g := s.byGoid[id]
	s.mu.Unlock()
	return g
}

func (s *Sched) trace(format string, a ...any) {
	if s.Trace != nil {
		s.Trace(format, a...)
	}
}

func (g *G) park(st State, site string) {
	s := g.sched
	s.mu.Lock()
	g.State = st
	g.Site = site
	s.mu.Unlock()
	<-g.wake
}

// Yield is a scheduling point: the calling goroutine parks until released.
func Yield(site string) {
	s := active.Load()
	if s == nil {
		return
	}
	g := s.self()
	if g == nil {
		return
	}
	atomic.AddInt64(&s.Yields, 1)
	g.park(Parked, site)
}

// Woke must be the first action of a goroutine after a blocking operation
// returned: it tells the scheduler loop (which may be letting simulated time
// pass) that somebody became runnable, and parks.
func Woke(site string) {
	s := active.Load()
	if s == nil {
		return
	}
	g := s.self()
	if g == nil {
		return
	}
	atomic.AddInt64(&s.Wakes, 1)
	s.mu.Lock()
	g.State = Parked
	g.Site = site
	s.mu.Unlock()
	select {
	case s.wakeCh <- struct{}{}:
	default:
	}
	<-g.wake
}

// Go starts f as a simulated goroutine (plain `go f()` when detached).
func Go(site string, f func()) *G {
	s := active.Load()
	if s == nil {
		go f()
		return nil
	}
	return s.Spawn(site, "", nil, f)
}

// Spawn is Go with a name and tag (harness use).
func (s *Sched) Spawn(site, name string, tag any, f func()) *G {
	parent := s.self()
	if parent == nil {
		parent = &s.root
	}
	s.mu.Lock()
	parent.kids++
	g := &G{ID: parent.ID + "." + strconv.Itoa(parent.kids), Name: name, Tag: tag, wake: make(chan struct{}), sched: s, State: Parked, Site: "birth:" + site, Seq: len(s.all)}
	s.all = append(s.all, g)
	s.mu.Unlock()
	registered := make(chan struct{})
	go func() {
		id := goid()
		s.mu.Lock()
		s.byGoid[id] = g
		s.mu.Unlock()
		close(registered)
		<-g.wake
		defer func() {
			s.mu.Lock()
			g.State = Exited
			delete(s.byGoid, id)
			s.mu.Unlock()
			select {
			case s.wakeCh <- struct{}{}:
			default:
			}
		}()
		f()
	}()
	<-registered
	return g
}

// Wrap returns f wrapped so that the goroutine some library starts for it
// (errgroup.Group.Go) registers with the scheduler and parks at birth.
func Wrap(site string, f func() error) func() error {
	s := active.Load()
	if s == nil {
		return f
	}
	parent := s.self()
	if parent == nil {
		parent = &s.root
	}
	s.mu.Lock()
	parent.kids++
	g := &G{ID: parent.ID + "." + strconv.Itoa(parent.kids), wake: make(chan struct{}), sched: s, State: Running, Site: "wrap:" + site, Seq: len(s.all)}
	s.all = append(s.all, g)
	s.mu.Unlock()
	return func() (err error) {
		id := goid()
		s.mu.Lock()
		s.byGoid[id] = g
		s.mu.Unlock()
		// park at birth; tell the loop in case it is idling
		Woke("birth:" + site)
		defer func() {
			s.mu.Lock()
			g.State = Exited
			delete(s.byGoid, id)
			s.mu.Unlock()
			select {
			case s.wakeCh <- struct{}{}:
			default:
			}
		}()
		return f()
	}
}

func (s *Sched) lock(l any) *lockState {
	ls := s.locks[l]
	if ls == nil {
		ls = &lockState{readers: map[*G]int{}}
		s.locks[l] = ls
	}
	return ls
}

func (s *Sched) acquire(l any, read bool, site string, real func()) {
	g := s.self()
	if g == nil {
		real()
		return
	}
	atomic.AddInt64(&s.Yields, 1)
	g.park(Parked, site) // scheduling point before the acquire
	for {
		s.mu.Lock()
		ls := s.lock(l)
		free := ls.owner == nil && (read || len(ls.readers) == 0)
		if free {
			if read {
				ls.readers[g]++
			} else {
				ls.owner = g
			}
			s.mu.Unlock()
			real() // uncontended by construction
			return
		}
		g.State = LockWait
		g.Site = site
		g.waitLock = l
		g.waitRead = read
		s.mu.Unlock()
		atomic.AddInt64(&s.LockWaits, 1)
		<-g.wake
	}
}

func (s *Sched) release(l any, read bool, real func()) {
	g := s.self()
	if g == nil {
		real()
		return
	}
	s.mu.Lock()
	ls := s.lock(l)
	if read {
		if ls.readers[g] > 1 {
			ls.readers[g]--
		} else {
			delete(ls.readers, g)
		}
	} else {
		ls.owner = nil
	}
	s.mu.Unlock()
	real()
}

// Lock / Unlock / RLock / RUnlock replace the sync.(RW)Mutex methods in instrumented files.
func Lock(m *sync.Mutex, site string) {
	if s := active.Load(); s != nil {
		s.acquire(m, false, site, m.Lock)
		return
	}
	m.Lock()
}
func Unlock(m *sync.Mutex) {
	if s := active.Load(); s != nil {
		s.release(m, false, m.Unlock)
		return
	}
	m.Unlock()
}
func RWLock(m *sync.RWMutex, site string) {
	if s := active.Load(); s != nil {
		s.acquire(m, false, site, m.Lock)
		return
	}
	m.Lock()
}
func RWUnlock(m *sync.RWMutex) {
	if s := active.Load(); s != nil {
		s.release(m, false, m.Unlock)
		return
	}
	m.Unlock()
}
func RLock(m *sync.RWMutex, site string) {
	if s := active.Load(); s != nil {
		s.acquire(m, true, site, m.RLock)
		return
	}
	m.RLock()
}
func RUnlock(m *sync.RWMutex) {
	if s := active.Load(); s != nil {
		s.release(m, true, m.RUnlock)
		return
	}
	m.RUnlock()
}

// SelectOrder returns the tape-chosen order in which a multi-way select polls
// its cases (nil when detached: the original select runs).
func SelectOrder(site string, n int) []int {
	s := active.Load()
	if s == nil || s.self() == nil {
		return nil
	}
	p := make([]int, n)
	for i := range p {
		p[i] = i
	}
	for i := 0; i < n-1; i++ {
		j := i + s.Choose(n-i, "select")
		p[i], p[j] = p[j], p[i]
	}
	return p
}

// TryRecv is a non-blocking receive: (value, ok, ready).
func TryRecv[T any](ch <-chan T) (v T, ok bool, ready bool) {
	select {
	case v, ok = <-ch:
		return v, ok, true
	default:
		return v, false, false
	}
}

// TrySend is a non-blocking send.
func TrySend[T any](ch chan<- T, v T) bool {
	select {
	case ch <- v:
		return true
	default:
		return false
	}
}

// MapKeys returns the keys of m in a tape-chosen order (plain iteration order
// when detached). Keys are first sorted by their printed form so that Go's
// unseedable map randomisation cannot leak into the run.
func MapKeys[K comparable, V any](m map[K]V, site string) []K {
	keys := make([]K, 0, len(m))
	for k := range m {
		keys = append(keys, k)
	}
	s := active.Load()
	if s == nil || len(keys) < 2 {
		return keys
	}
	strs := make([]string, len(keys))
	for i, k := range keys {
		strs[i] = fmt.Sprint(k)
	}
	idx := make([]int, len(keys))
	for i := range idx {
		idx[i] = i
	}
	sort.Slice(idx, func(a, b int) bool { return strs[idx[a]] < strs[idx[b]] })
	out := make([]K, len(keys))
	for i, j := range idx {
		out[i] = keys[j]
	}
	if s.MapOrder != nil {
		perm := s.MapOrder(len(out), site)
		if perm != nil {
			p := make([]K, len(out))
			for i, j := range perm {
				p[i] = out[j]
			}
			out = p
		}
	}
	return out
}

// MapKeysSeq / MapValuesSeq / MapAllSeq stand in for maps.Keys / maps.Values / maps.All of the standard library:
// the same iterators, over the tape-chosen key order.
func MapKeysSeq[K comparable, V any](m map[K]V, site string) iter.Seq[K] {
	return func(yield func(K) bool) {
		for _, k := range MapKeys(m, site) {
			if !yield(k) {
				return
			}
		}
	}
}

func MapValuesSeq[K comparable, V any](m map[K]V, site string) iter.Seq[V] {
	return func(yield func(V) bool) {
		for _, k := range MapKeys(m, site) {
			if !yield(m[k]) {
				return
			}
		}
	}
}

func MapAllSeq[K comparable, V any](m map[K]V, site string) iter.Seq2[K, V] {
	return func(yield func(K, V) bool) {
		for _, k := range MapKeys(m, site) {
			if !yield(k, m[k]) {
				return
			}
		}
	}
}

// ---------------------------------------------------------------------------
// scheduler-loop side (harness)
// ---------------------------------------------------------------------------

// Quiesce waits until every goroutine of the bubble is durably blocked.
func (s *Sched) Quiesce() { synctest.Wait() }

// All returns every simulated goroutine in creation order.
func (s *Sched) All() []*G {
	s.mu.Lock()
	defer s.mu.Unlock()
	return append([]*G(nil), s.all...)
}

// Runnable returns, in creation order, the goroutines that can be released
// now: parked at a seam, or waiting for a simulated lock that is free.
// Call only at a quiescent point.
func (s *Sched) Runnable() []*G {
	s.mu.Lock()
	defer s.mu.Unlock()
	var r []*G
	for _, g := range s.all {
		switch g.State {
		case Parked:
			r = append(r, g)
		case LockWait:
			ls := s.lock(g.waitLock)
			if ls.owner == nil && (g.waitRead || len(ls.readers) == 0) {
				r = append(r, g)
			}
		}
	}
	return r
}

// LockOwner returns the goroutine holding the lock g waits for (nil if g is not waiting / lock free).
func (s *Sched) LockOwner(g *G) *G {
	s.mu.Lock()
	defer s.mu.Unlock()
	if g.State != LockWait {
		return nil
	}
	ls := s.lock(g.waitLock)
	if ls.owner != nil {
		return ls.owner
	}
	for r := range ls.readers {
		return r
	}
	return nil
}

// Live counts goroutines that have not exited.
func (s *Sched) Live() int {
	s.mu.Lock()
	defer s.mu.Unlock()
	n := 0
	for _, g := range s.all {
		if g.State != Exited {
			n++
		}
	}
	return n
}

// Release lets g run until its next seam / blocking operation / exit.
func (s *Sched) Release(g *G) {
	s.mu.Lock()
	g.State = Running
	g.Steps++
	s.mu.Unlock()
	g.wake <- struct{}{}
}

// Idle lets simulated time pass: returns when some goroutine reports a wake-up
// or after d of simulated time, whichever is first. Returns true on wake-up.
func (s *Sched) Idle(d time.Duration) bool {
	t := time.NewTimer(d)
	defer t.Stop()
	select {
	case <-s.wakeCh:
		return true
	case <-t.C:
		return false
	}
}

// DrainWake clears a pending wake signal (call after Quiesce when the loop
// does not care about wake-ups that already happened).
func (s *Sched) DrainWake() {
	select {
	case <-s.wakeCh:
	default:
	}
}
