module verif

go 1.23
