module verif

go 1.25.5
