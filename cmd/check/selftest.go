package main

import "fmt"

func selftestDeterminism(args []string, seed int64) int {
	fmt.Println("not built yet")
	return 2
}
