package main

import (
	"fmt"
	"os"
	"strings"

	"verif/sim"
)

// selftestDeterminism: for each named property, run the same (seed, run) range
// several times in separate OS processes under different GOMAXPROCS and compare
// the hash of the complete event log + tape + counters of every run.
func selftestDeterminism(args []string, seed int64) int {
	if len(args) == 0 {
		for _, c := range checks {
			args = append(args, c.Property)
		}
	}
	bad := 0
	for _, id := range args {
		c := findCheck(id)
		if c == nil {
			fmt.Fprintln(os.Stderr, "unknown property", id)
			return 2
		}
		o := &orch{c: c, tier: "quick", seed: seed, noEvidence: true}
		if err := o.build(); err != nil {
			fatal2("build: %v", err)
		}
		const runs = 40
		var ref []string
		procs := []string{"1", "4", "16", "1", "4", "16"}
		for rep, gmp := range procs {
			os.Setenv("VERIF_GOMAXPROCS", gmp)
			spec := &sim.Spec{Property: c.Property, Harness: c.Harness, Tier: "quick", Seed: seed, Worker: 0, Workers: 1,
				MaxRuns: runs, RunTimeoutS: c.RunTimeoutS, ShrinkBudget: 0, MaxViol: 1 << 30, Params: c.Params, Trace: true}
			res, err, _ := o.runWorker(spec, fmt.Sprintf("det%d", rep))
			if err != nil {
				fatal2("selftest worker: %v", err)
			}
			if rep == 0 {
				ref = res.TraceHashes
				continue
			}
			if strings.Join(ref, "\n") != strings.Join(res.TraceHashes, "\n") {
				bad++
				fmt.Printf("NONDETERMINISM property=%s GOMAXPROCS=%s rep=%d\n", id, gmp, rep)
				for i := range ref {
					if i < len(res.TraceHashes) && ref[i] != res.TraceHashes[i] {
						fmt.Printf("  first difference: %s vs %s\n", ref[i], res.TraceHashes[i])
						break
					}
				}
			}
		}
		os.Unsetenv("VERIF_GOMAXPROCS")
		fmt.Printf("determinism %s: %d runs x %d executions (GOMAXPROCS 1/4/16 twice), seed %d: %s\n", id, runs, len(procs), seed, map[bool]string{true: "identical", false: "DIFFERENT"}[bad == 0])
	}
	if bad > 0 {
		return 2
	}
	return 0
}
