package main

import (
	"encoding/json"
	"os"
	"path/filepath"
)

// notApplicable: properties the technique cannot address (pure functions of one input) – see DESIGN.md §2/§5.
var notApplicable = []struct{ ID, Reason string }{
	{"C01", "pure function of (program, registers, memory, gas): no schedule, clock, fault, abort/rollback or surviving state for a simulator to own; needs a reference interpreter + input enumeration (different technique)"},
	{"C02", "differential testing of two pure functions on generated programs; nothing simulator-owned"},
	{"C03", "parser/loader robustness on arbitrary byte strings is coverage-guided fuzzing; a simulator could only generate inputs"},
	{"C05", "pure function of (program, memory map); no schedule/clock/fault dimension"},
	{"C06", "pure function of (blob, argument)"},
	{"C07", "a single host call is a pure function of (registers, memory, context); the 'error code leaves state unchanged' clause is observed for CASH/FULL inside the accumulation-transaction simulation (C08/C09) but not claimed"},
	{"C12", "pure functions over integers / byte strings"},
	{"C13", "a property of the decoder's acceptance set; input enumeration/fuzzing, nothing simulator-owned"},
	{"C15", "pure function of the entry set (an independent reference trie is evaluated as a by-product in the C16 histories, unclaimed)"},
	{"C18", "pure functions of a blob sequence"},
	{"C19", "pure function of the append sequence; no clock, schedule, I/O or abort point"},
	{"C20", "pure functions of (sequence, entropy, slot)"},
	{"C29", "pure functions of (validator set, key pair)"},
	{"C30", "pure function; additionally needs the Rust reed-solomon static library which is not built in this sandbox"},
	{"C32", "pure function of (work item, refinement outcome); additionally needs the Rust libraries"},
	{"C33", "sequential host calls on a private inner-machine map with no abort/rollback, clock, schedule or I/O: would be model-based input generation plus a reference PVM, i.e. another technique"},
}

// notYet: simulation targets by DESIGN.md whose harness is not built (yet); listed so MANIFEST says why they are unclaimed.
var notYet = []struct{ ID, Reason string }{
}

func writeManifest() error {
	type level struct {
		Category  string `json:"category"`
		Text      string `json:"text"`
		DesignRef string `json:"design_ref,omitempty"`
	}
	type chk struct {
		PropertyID string `json:"property_id"`
		Quick      string `json:"quick_cmd"`
		Thorough   string `json:"thorough_cmd"`
		Evidence   string `json:"evidence_file"`
		Replay     string `json:"replay_cmd_template"`
		Engine     string `json:"engine"`
		Level      level  `json:"level_claimed"`
		Note       string `json:"level_note"`
		Technique  string `json:"technique"`
	}
	type na struct {
		PropertyID string `json:"property_id"`
		Reason     string `json:"reason"`
	}
	type eng struct {
		Name   string   `json:"name"`
		Path   string   `json:"path"`
		Serves []string `json:"serves_properties"`
		Kind   string   `json:"kind_free_text"`
	}
	build := "go build -o bin/check ./cmd/check && "
	var cs []chk
	serves := map[string][]string{}
	for _, c := range checks {
		cs = append(cs, chk{
			PropertyID: c.Property,
			Quick:      build + "./bin/check " + c.Property + " --tier quick",
			Thorough:   build + "./bin/check " + c.Property + " --tier thorough",
			Evidence:   "/verif/evidence/" + c.Property + ".json",
			Replay:     "./bin/check " + c.Property + " --replay {path}",
			Engine:     c.Harness,
			Level:      level{c.Level, c.LevelText, c.DesignRef},
			Note:       c.LevelNote,
			Technique:  c.Technique,
		})
		serves[c.Harness] = append(serves[c.Harness], c.Property)
		for _, a := range c.Arms {
			serves[a.Harness] = append(serves[a.Harness], c.Property)
		}
	}
	var nas []na
	claimed := map[string]bool{}
	for _, c := range checks {
		claimed[c.Property] = true
	}
	for _, n := range notApplicable {
		nas = append(nas, na{n.ID, n.Reason})
	}
	for _, n := range notYet {
		if !claimed[n.ID] {
			nas = append(nas, na{n.ID, n.Reason})
		}
	}
	var engs []eng
	for name, h := range harnesses {
		if len(serves[name]) == 0 {
			continue
		}
		engs = append(engs, eng{name, "/verif/harness/" + name, serves[name], harnessKind[name] + " (test binary built in " + h.PkgDir + " through go test -overlay)"})
	}
	sortEngs := func() {
		for i := range engs {
			for j := i + 1; j < len(engs); j++ {
				if engs[j].Name < engs[i].Name {
					engs[i], engs[j] = engs[j], engs[i]
				}
			}
		}
	}
	sortEngs()
	m := map[string]any{
		"version":   1,
		"setup_cmd": "cd /verif && go build -o bin/check ./cmd/check",
		"hooks": map[string]any{
			"guard":            "verif",
			"enable":           "no hook is committed to /repo: every check builds /repo's current working tree with `go test -c -tags verif -overlay <generated>.json`; the overlay adds the pure-Go VRF stand-in for the absent pkg/Rust-VRF submodule, the harness files (build tag verif), the simulator core as internal/zzverif/sim, and AST-instrumented copies (yield/lock/map-order seams) of selected repo files regenerated from the current tree",
			"baseline_off_cmd": "cd /repo && go test -mod=mod -json -vet=off -count=1 -timeout 25m ./...",
			"source_commits":   []string{},
			"add_only":         true,
		},
		"engines":        engs,
		"checks":         cs,
		"not_applicable": nas,
		"notes":          "Technique family: deterministic simulation with fault injection. One integer (VERIF_SEED) + run index seeds a choice tape that decides every generated operation, interleaving, clock advance and fault; violations are minimised tapes replayed in a fresh process before being reported. Exit 2 = infrastructure trouble, never a VIOLATION. /repo carries 'fix:' commits for the genuine defects the checks found (see known_findings.json and DESIGN.md §10).",
	}
	b, _ := json.MarshalIndent(m, "", " ")
	return os.WriteFile(filepath.Join(verifDir, "MANIFEST.json"), append(b, '\n'), 0o644)
}

var harnessKind = map[string]string{
	"h4chain": "H4 chain simulation: the real node (fuzz service, STF, chain state) under author-built block histories with injected invalid blocks, retries, orphans, forks and restarts; oracles = a reference incarnation that never saw the rejected blocks + independent reference models",
	"h2sched": "H2 schedule simulation: real accumulation round under a seeded scheduler, worker-pool knob and simulated map iteration order; N executions must agree",
	"h3acc":   "H3 accumulation-transaction simulation: real PVM.Psi_A on generated programs/states, host calls observed through wrappers in PVM.AccumulateOmegas, abort points injected through the gas limit, reference-model oracles in exact integers",
	"h5cache": "H5 component-history simulation: root-computation histories on a live ChainState with the leaf-cache capacity as a randomised knob, cached vs uncached differential oracle",
	"h1tel":   "H1 telemetry simulation: real tcpClient goroutines under a seeded park/release scheduler in a synctest bubble, simulated dialer/conn with fault injection, receiver-model oracle",
	"h6codec": "H6 codec simulation: concurrent tasks encode / decode generated protocol values through the shared encoder pool under a seeded scheduler, a simulated sync.Pool and simulated map iteration order; reference-encoding oracle",
	"h5db":    "H5 component-history simulation: tape-generated operation histories against the three real database providers vs a sorted-map model, caller-buffer reuse as the injected fault",
}
