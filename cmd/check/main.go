// Command check is the orchestrator: for one property it regenerates the build
// overlay from /repo's current working tree, builds the harness test binary,
// fans simulated runs out over worker processes, merges their results, writes
// the evidence file and decides the exit code:
//
//	0  property held on everything explored (KNOWN-FINDING lines allowed)
//	1  a violation was found:  VIOLATION property=<id> replay=<path>
//	2  infrastructure trouble (build failure, watchdog, non-replaying failure) – never a VIOLATION
package main

import (
	"encoding/json"
	"flag"
	"fmt"
	"os"
	"os/exec"
	"path/filepath"
	"runtime"
	"sort"
	"strconv"
	"strings"
	"sync"
	"time"

	"verif/instrument"
	"verif/sim"
)

// repoDir / verifDir: the registered commands always run /verif against /repo; background exploration runs
// (vp run --with-repo) point them at snapshots through VERIF_REPO_DIR / VERIF_DIR.
var (
	repoDir  = envOr("VERIF_REPO_DIR", "/repo")
	verifDir = envOr("VERIF_DIR", "/verif")
)

const modPath = "github.com/New-JAMneration/JAM-Protocol"

func fatal2(format string, a ...any) {
	fmt.Fprintf(os.Stderr, "INFRA: "+format+"\n", a...)
	os.Exit(2)
}

func main() {
	if len(os.Args) < 2 {
		fmt.Fprintln(os.Stderr, "usage: check <property|selftest-determinism|list> [--tier quick|thorough] [--replay file] [--seed n]")
		os.Exit(2)
	}
	target := os.Args[1]
	fs := flag.NewFlagSet("check", flag.ExitOnError)
	tier := fs.String("tier", envOr("VERIF_TIER", "quick"), "quick|thorough")
	replay := fs.String("replay", "", "replay file")
	seedF := fs.String("seed", envOr("VERIF_SEED", "1"), "seed")
	budget := fs.Float64("budget", 0, "override wall budget of the exploration phase (seconds)")
	workers := fs.Int("workers", 0, "override worker count")
	dump := fs.Bool("dump", false, "with --replay: print the full event log")
	noEvidence := fs.Bool("no-evidence", false, "do not rewrite the evidence file (scratch runs)")
	fs.Parse(os.Args[2:])
	seed, err := strconv.ParseInt(*seedF, 10, 64)
	if err != nil {
		seed = int64(sim.HashString(*seedF) >> 1)
	}
	if *tier != "quick" && *tier != "thorough" {
		*tier = "quick"
	}

	switch target {
	case "list":
		for _, c := range checks {
			fmt.Println(c.Property, c.Harness)
		}
		return
	case "instrument":
		// debugging aid: check instrument <repo-relative file>...  (prints the instrumented source)
		h := &Harness{}
		for _, f := range fs.Args() {
			h.Instrument = append(h.Instrument, InstrSpec{File: f, Opt: instrument.Options{Yield: true, MapOrder: true}})
		}
		wd := filepath.Join(verifDir, ".work", "instrument-debug")
		os.MkdirAll(wd, 0o755)
		o := &orch{}
		ov, _, err := makeOverlay(h, wd, o.goEnv())
		if err != nil {
			fatal2("%v", err)
		}
		for _, f := range fs.Args() {
			b, _ := os.ReadFile(ov[filepath.Join(repoDir, f)])
			os.Stdout.Write(b)
		}
		return
	case "manifest":
		if err := writeManifest(); err != nil {
			fatal2("manifest: %v", err)
		}
		return
	case "selftest-determinism":
		os.Exit(selftestDeterminism(fs.Args(), seed))
	}
	c := findCheck(target)
	if c == nil {
		fatal2("unknown property %q", target)
	}
	o := &orch{c: c, tier: *tier, seed: seed, budget: *budget, workers: *workers, dump: *dump, noEvidence: *noEvidence}
	if *replay != "" {
		os.Exit(o.replay(*replay))
	}
	os.Exit(o.run())
}

func envOr(k, d string) string {
	if v := os.Getenv(k); v != "" {
		return v
	}
	return d
}

type orch struct {
	c          *Check
	tier       string
	seed       int64
	budget     float64
	workers    int
	dump       bool
	noEvidence bool
	workDir    string
	bin        string
	treeHash   string
	buildS     float64
	built      map[string]builtHarness // by harness name (primary harness and the arms of the check)
}

type builtHarness struct{ workDir, bin string }

func (o *orch) goEnv() []string {
	env := os.Environ()
	out := env[:0:0]
	for _, e := range env {
		if strings.HasPrefix(e, "GOFLAGS=") || strings.HasPrefix(e, "GOPROXY=") || strings.HasPrefix(e, "GOTOOLCHAIN=") || strings.HasPrefix(e, "GOSUMDB=") || strings.HasPrefix(e, "GOWORK=") {
			continue
		}
		out = append(out, e)
	}
	// repo toolchain (go1.25.5) comes from the module cache via the default GOTOOLCHAIN=auto
	return append(out, "GOFLAGS=-mod=mod", "GOPROXY=off", "GOWORK=off")
}

// build regenerates the overlay from the current /repo tree and builds the test binary of the check's
// primary harness and of every additional arm.
func (o *orch) build() error {
	t0 := time.Now()
	o.built = map[string]builtHarness{}
	names := []string{o.c.Harness}
	for _, a := range o.c.Arms {
		names = append(names, a.Harness)
	}
	for _, name := range names {
		if _, done := o.built[name]; done {
			continue
		}
		if err := o.buildHarness(name); err != nil {
			return err
		}
	}
	o.workDir, o.bin = o.built[o.c.Harness].workDir, o.built[o.c.Harness].bin
	o.buildS = time.Since(t0).Seconds()
	return nil
}

func (o *orch) buildHarness(name string) error {
	h := harnesses[name]
	if h == nil {
		return fmt.Errorf("no harness %q", name)
	}
	workDir := filepath.Join(verifDir, ".work", name+"-"+o.c.Property)
	os.RemoveAll(workDir)
	if err := os.MkdirAll(workDir, 0o755); err != nil {
		return err
	}
	ov, treeHash, err := makeOverlay(h, workDir, o.goEnv())
	if err != nil {
		return err
	}
	o.treeHash = treeHash
	ovPath := filepath.Join(workDir, "overlay.json")
	b, _ := json.MarshalIndent(map[string]any{"Replace": ov}, "", " ")
	if err := os.WriteFile(ovPath, b, 0o644); err != nil {
		return err
	}
	bin := filepath.Join(workDir, "harness.test")
	args := []string{"test", "-c", "-overlay", ovPath, "-tags", "verif", "-vet=off", "-o", bin}
	if h.Race {
		args = append(args, "-race")
	}
	args = append(args, "./"+h.PkgDir)
	cmd := exec.Command("go", args...)
	cmd.Dir = repoDir
	cmd.Env = o.goEnv()
	out, err := cmd.CombinedOutput()
	if err != nil {
		return fmt.Errorf("go %s: %v\n%s", strings.Join(args, " "), err, out)
	}
	o.built[name] = builtHarness{workDir, bin}
	return nil
}

type tierCfg struct {
	budget  float64 // exploration wall seconds
	maxRuns int64   // per worker, 0 = unbounded (time-boxed)
	shrink  int
}

func (o *orch) cfg() tierCfg {
	t := o.c.Quick
	if o.tier == "thorough" {
		t = o.c.Thorough
	}
	if o.budget > 0 {
		t.budget = o.budget
	}
	return t
}

// armOf: the last workers of a check are given to its additional arms (other harnesses serving the same property).
func (o *orch) armOf(i, nw int, primary tierCfg) (string, tierCfg) {
	pos := nw
	for _, a := range o.c.Arms {
		n := a.Workers
		if n > nw/2 {
			n = nw / 2
		}
		if n < 1 && nw > 1 {
			n = 1
		}
		pos -= n
		if i >= pos && i < pos+n && nw > 1 {
			t := a.Quick
			if o.tier == "thorough" {
				t = a.Thorough
			}
			if o.budget > 0 {
				t.budget = o.budget
			}
			return a.Harness, t
		}
	}
	return o.c.Harness, primary
}

func (o *orch) nWorkers() int {
	if o.workers > 0 {
		return o.workers
	}
	n := runtime.NumCPU()
	if n > 16 {
		n = 16
	}
	if o.c.MaxWorkers > 0 && n > o.c.MaxWorkers {
		n = o.c.MaxWorkers
	}
	return n
}

func (o *orch) runWorker(spec *sim.Spec, idx string) (*sim.WorkerResult, error, bool) {
	bh, ok := o.built[spec.Harness]
	if !ok {
		return nil, fmt.Errorf("harness %q is not built for this check", spec.Harness), true
	}
	workDir, bin := bh.workDir, bh.bin
	specPath := filepath.Join(workDir, "spec-"+idx+".json")
	spec.OutPath = filepath.Join(workDir, "out-"+idx+".json")
	os.Remove(spec.OutPath)
	b, _ := json.Marshal(spec)
	if err := os.WriteFile(specPath, b, 0o644); err != nil {
		return nil, err, true
	}
	h := harnesses[spec.Harness]
	gmp := envOr("VERIF_GOMAXPROCS", strconv.Itoa(h.GoMaxProcs))
	args := []string{"-test.run", "^" + h.TestName + "$", "-test.count=1", "-test.cpu", gmp, "-test.timeout", "12h"}
	if o.dump {
		args = append(args, "-test.v")
	}
	cmd := exec.Command(bin, args...)
	cmd.Dir = workDir
	cmd.Env = append(os.Environ(), "VERIF_SPEC="+specPath)
	if h.MemLimitMB > 0 {
		// virtual-memory limit through the shell so that a hostile allocation cannot hurt the sandbox
		sh := fmt.Sprintf("ulimit -v %d; exec %s %s", h.MemLimitMB*1024, bin, strings.Join(args, " "))
		cmd = exec.Command("bash", "-c", sh)
		cmd.Dir = workDir
		cmd.Env = append(os.Environ(), "VERIF_SPEC="+specPath)
	}
	out, err := cmd.CombinedOutput()
	logPath := filepath.Join(workDir, "log-"+idx+".txt")
	os.WriteFile(logPath, out, 0o644)
	if o.dump {
		os.Stdout.Write(out)
	}
	raw, rerr := os.ReadFile(spec.OutPath)
	var res sim.WorkerResult
	if rerr == nil {
		rerr = json.Unmarshal(raw, &res)
	}
	if err != nil || rerr != nil {
		tailOut := string(out)
		if len(tailOut) > 6000 {
			tailOut = tailOut[len(tailOut)-6000:]
		}
		if rerr == nil && len(res.Infra) > 0 {
			return &res, fmt.Errorf("worker %s: %v: %s", idx, err, strings.Join(res.Infra, "\n")), true
		}
		return nil, fmt.Errorf("worker %s failed: %v / %v\n%s", idx, err, rerr, tailOut), true
	}
	return &res, nil, false
}

func (o *orch) knownSigs() (known []Finding, sigs []string) {
	for _, f := range loadFindings() {
		if f.Status == "known" && f.Property == o.c.Property {
			known = append(known, f)
			sigs = append(sigs, f.Property+"|"+f.Signature)
		}
	}
	return
}

func (o *orch) run() int {
	t0 := time.Now()
	if err := o.build(); err != nil {
		fatal2("build: %v", err)
	}
	cfg := o.cfg()
	nw := o.nWorkers()
	known, ksigs := o.knownSigs()
	type wr struct {
		res *sim.WorkerResult
		err error
	}
	results := make([]wr, nw)
	var wg sync.WaitGroup
	for i := 0; i < nw; i++ {
		wg.Add(1)
		go func(i int) {
			defer wg.Done()
			hname, hcfg := o.armOf(i, nw, cfg)
			spec := &sim.Spec{
				Property: o.c.Property, Harness: hname, Tier: o.tier, Seed: o.seed,
				Worker: int64(i), Workers: int64(nw), MaxRuns: hcfg.maxRuns, DeadlineSec: hcfg.budget,
				RunTimeoutS: o.c.RunTimeoutS, ShrinkBudget: hcfg.shrink, MaxViol: 3, Params: o.c.Params, KnownSigs: ksigs,
			}
			res, err, _ := o.runWorker(spec, fmt.Sprintf("w%02d", i))
			if res != nil {
				for k := range res.Violations {
					res.Violations[k].Harness = hname
				}
				res.Stats["arm_runs:"+hname] += res.Runs
			}
			results[i] = wr{res, err}
		}(i)
	}
	wg.Wait()

	merged := &sim.WorkerResult{Stats: map[string]int64{}}
	hashes := map[uint64]struct{}{}
	var infra []string
	for _, r := range results {
		if r.err != nil {
			infra = append(infra, r.err.Error())
		}
		if r.res == nil {
			continue
		}
		merged.Runs += r.res.Runs
		merged.Nontrivial += r.res.Nontrivial
		merged.Discarded += r.res.Discarded
		merged.SimNanos += r.res.SimNanos
		merged.ShrinkTried += r.res.ShrinkTried
		merged.ShrinkOK += r.res.ShrinkOK
		merged.HashesCap = merged.HashesCap || r.res.HashesCap
		for k, v := range r.res.Stats {
			merged.Stats[k] += v
		}
		for _, h := range r.res.Hashes {
			hashes[h] = struct{}{}
		}
		merged.Violations = append(merged.Violations, r.res.Violations...)
		if len(merged.Samples) < 4 {
			merged.Samples = append(merged.Samples, r.res.Samples...)
		}
	}
	// A worker that failed (watchdog, crash of the harness process) makes the batch inconclusive - unless other workers
	// brought violations: those are still confirmed one by one in a fresh process below and reported; the exit code is 2
	// only when nothing confirmed remains. (A change that makes one arm of a check hang must not hide what another arm
	// of the same check found.)
	infraSeen := false
	if len(infra) > 0 {
		for _, e := range infra {
			fmt.Fprintln(os.Stderr, "INFRA:", e)
		}
		infraSeen = true
		if len(merged.Violations) == 0 {
			return 2
		}
	}
	if merged.Runs == 0 {
		fatal2("no runs executed")
	}

	// classify violations: known finding vs new; confirm each by replay in a fresh process
	sort.SliceStable(merged.Violations, func(i, j int) bool {
		a, b := merged.Violations[i], merged.Violations[j]
		if a.Signature != b.Signature {
			return a.Signature < b.Signature
		}
		return len(a.Tape) < len(b.Tape)
	})
	exit := 0
	seenSig := map[string]bool{}
	nViol := 0
	knownHit := map[string]bool{}
	var violSamples []string
	for _, v := range merged.Violations {
		if seenSig[v.Signature] {
			continue
		}
		seenSig[v.Signature] = true
		vh := v.Harness
		if vh == "" {
			vh = o.c.Harness
		}
		rp := &sim.Replay{Property: v.Property, Harness: vh, Tier: o.tier, Seed: v.Seed, Run: v.Run,
			Params: o.c.Params, Tape: v.Tape, Class: v.Class, Signature: v.Signature, Message: v.Message, Log: v.Log,
			RepoRev: repoRev(), TreeHash: o.treeHash}
		// fresh-process confirmation
		spec := &sim.Spec{Property: o.c.Property, Harness: vh, Tier: o.tier, Seed: v.Seed, Replay: rp,
			RunTimeoutS: o.c.RunTimeoutS, Params: o.c.Params}
		res, err, _ := o.runWorker(spec, "confirm")
		if err != nil {
			fmt.Fprintln(os.Stderr, "INFRA: replay confirmation failed to run:", err)
			return 2
		}
		if !res.Reproduced {
			fmt.Fprintf(os.Stderr, "INFRA: violation %s/%s (seed=%d run=%d) did not reproduce from its minimised tape in a fresh process – nondeterminism outside a seam; nothing reported\n", v.Property, v.Signature, v.Seed, v.Run)
			dbg := filepath.Join(verifDir, "replays", fmt.Sprintf("NONREPRO-%s-%d-%d.json", v.Property, v.Seed, v.Run))
			b, _ := json.MarshalIndent(rp, "", " ")
			os.WriteFile(dbg, b, 0o644)
			infraSeen = true
			continue
		}
		isKnown := false
		for _, f := range known {
			if f.Signature == v.Signature {
				isKnown = true
				if !knownHit[f.Signature] {
					fmt.Printf("KNOWN-FINDING: property=%s %s [%s]\n", v.Property, f.What, f.Signature)
					knownHit[f.Signature] = true
				}
			}
		}
		if isKnown {
			continue
		}
		nViol++
		path := filepath.Join(verifDir, "replays", fmt.Sprintf("%s-%d-%d.json", v.Property, v.Seed, v.Run))
		os.MkdirAll(filepath.Dir(path), 0o755)
		b, _ := json.MarshalIndent(rp, "", " ")
		os.WriteFile(path, b, 0o644)
		fmt.Printf("VIOLATION property=%s replay=%s\n", v.Property, path)
		fmt.Printf("  class=%s signature=%s seed=%d run=%d tape_len=%d (from %d, %d/%d shrink steps accepted)\n  %s\n",
			v.Class, v.Signature, v.Seed, v.Run, len(v.Tape), v.OrigLen, v.ShrinkOK, v.ShrinkTry, v.Message)
		violSamples = append(violSamples, fmt.Sprintf("%s: %s", v.Signature, v.Message))
		exit = 1
	}
	// a recorded finding is reported on every run of the unchanged tree, whether or not this batch happened to hit it
	for _, f := range known {
		if !knownHit[f.Signature] {
			fmt.Printf("KNOWN-FINDING: property=%s %s [%s] (not re-hit by this batch)\n", f.Property, f.What, f.Signature)
		}
	}

	wall := time.Since(t0).Seconds()
	if !o.noEvidence {
		if err := o.writeEvidence(merged, len(hashes), nViol, len(knownHit), wall, nw, violSamples); err != nil {
			fatal2("evidence: %v", err)
		}
	}
	fmt.Printf("check %s tier=%s seed=%d: runs=%d nontrivial=%d distinct=%d discarded=%d violations=%d known_hit=%d wall=%.1fs (build %.1fs)\n",
		o.c.Property, o.tier, o.seed, merged.Runs, merged.Nontrivial, len(hashes), merged.Discarded, nViol, len(knownHit), wall, o.buildS)
	if exit == 0 && infraSeen {
		return 2
	}
	return exit
}

func (o *orch) replay(path string) int {
	raw, err := os.ReadFile(path)
	if err != nil {
		fatal2("replay file: %v", err)
	}
	var rp sim.Replay
	if err := json.Unmarshal(raw, &rp); err != nil {
		fatal2("replay file: %v", err)
	}
	if rp.Property != o.c.Property {
		fatal2("replay file is for property %s, not %s", rp.Property, o.c.Property)
	}
	if err := o.build(); err != nil {
		fatal2("build: %v", err)
	}
	params := rp.Params
	if params == nil {
		params = o.c.Params
	}
	rh := rp.Harness
	if _, ok := o.built[rh]; !ok {
		rh = o.c.Harness
	}
	spec := &sim.Spec{Property: o.c.Property, Harness: rh, Tier: rp.Tier, Seed: rp.Seed, Replay: &rp,
		RunTimeoutS: o.c.RunTimeoutS, Params: params, DumpLog: o.dump}
	res, err, _ := o.runWorker(spec, "replay")
	if err != nil {
		fatal2("replay: %v", err)
	}
	if rp.TreeHash != "" && rp.TreeHash != o.treeHash {
		fmt.Printf("note: replay file was recorded against a different source tree (%s, now %s)\n", rp.TreeHash, o.treeHash)
	}
	if res.Reproduced {
		for _, v := range res.Violations {
			if v.Property == rp.Property {
				fmt.Printf("VIOLATION property=%s replay=%s\n  class=%s signature=%s\n  %s\n", v.Property, path, v.Class, v.Signature, v.Message)
				break
			}
		}
		return 1
	}
	fmt.Printf("replay of %s: violation not reproduced on this tree\n", path)
	return 0
}

func repoRev() string {
	out, err := exec.Command("git", "-C", repoDir, "rev-parse", "--short", "HEAD").Output()
	if err != nil {
		return ""
	}
	rev := strings.TrimSpace(string(out))
	st, _ := exec.Command("git", "-C", repoDir, "status", "--porcelain").Output()
	if len(strings.TrimSpace(string(st))) > 0 {
		rev += "+dirty"
	}
	return rev
}

func (o *orch) writeEvidence(m *sim.WorkerResult, distinct, nViol, knownHit int, wall float64, nw int, violSamples []string) error {
	faults := map[string]int64{}
	probes := map[string]int64{}
	other := map[string]int64{}
	for k, v := range m.Stats {
		switch {
		case strings.HasPrefix(k, "fault:"):
			faults[strings.TrimPrefix(k, "fault:")] = v
		case strings.HasPrefix(k, "probe:"):
			probes[strings.TrimPrefix(k, "probe:")] = v
		default:
			other[k] = v
		}
	}
	var zeroProbes []string
	for _, p := range o.c.ExpectProbes {
		if m.Stats[p] == 0 {
			zeroProbes = append(zeroProbes, p)
		}
	}
	sort.Strings(zeroProbes)
	if len(zeroProbes) > 0 {
		fmt.Printf("NOTE: expected probes that never fired in this batch (the workload did not reach them): %s\n", strings.Join(zeroProbes, ", "))
	}
	// counters that stay at zero on a tree where the harness and the node agree: a block the harness author believes
	// valid but a clean node refuses, a panic inside the node, in-memory state that differs from the committed one.
	// Not a verdict (the author is not an oracle) - but somebody should look.
	for _, k := range []string{"author:block_rejected_by_scratch_node", "node_under_test_panics", "byproduct:in_memory_state_differs_from_committed_state"} {
		if v := m.Stats[k]; v > 0 {
			fmt.Printf("NOTE: counter %s = %d in this batch (0 on the tree the harness was built against)\n", k, v)
		}
	}
	samples := []any{}
	for _, s := range m.Samples {
		samples = append(samples, s)
	}
	for _, s := range violSamples {
		samples = append(samples, "VIOLATION "+s)
	}
	if len(samples) == 0 {
		samples = append(samples, fmt.Sprintf("seed=%d (no summary recorded)", o.seed))
	}
	explore := wall - o.buildS
	if explore <= 0 {
		explore = wall
	}
	cov := map[string]any{
		"evaluations":          m.Runs,
		"distinct_nontrivial":  distinct,
		"rule":                 o.c.Rule,
		"samples":              samples,
		"nontrivial_runs":      m.Nontrivial,
		"discarded_runs":       m.Discarded,
		"distinct_capped":      m.HashesCap,
		"runs_per_hour":        int64(float64(m.Runs) / explore * 3600),
		"sim_seconds":          float64(m.SimNanos) / 1e9,
		"faults_fired":         faults,
		"probes":               probes,
		"counters":             other,
		"probes_stuck_at_zero": zeroProbes,
		"components":           map[string]any{"real": o.c.Real, "stub": o.c.Stub},
		"shrink":               map[string]int{"attempts": m.ShrinkTried, "accepted": m.ShrinkOK},
		"workers":              nw,
		"known_findings_hit":   knownHit,
		"repo_rev":             repoRev(),
		"repo_tree_hash":       o.treeHash,
		"build_s":              o.buildS,
	}
	ev := map[string]any{
		"property_id": o.c.Property,
		"tier":        o.tier,
		"seed":        o.seed,
		"level":       o.c.Level,
		"coverage":    cov,
		"assumptions": o.c.Assumptions,
		"wall_s":      wall,
		"violations":  nViol,
	}
	b, _ := json.MarshalIndent(ev, "", " ")
	os.MkdirAll(filepath.Join(verifDir, "evidence"), 0o755)
	return os.WriteFile(filepath.Join(verifDir, "evidence", o.c.Property+".json"), b, 0o644)
}

// Finding is an entry of /verif/known_findings.json.
type Finding struct {
	Status    string `json:"status"` // "known" or "fixed"
	Property  string `json:"property"`
	Signature string `json:"signature"`
	What      string `json:"what"`
	Commit    string `json:"commit,omitempty"`
}

func loadFindings() []Finding {
	raw, err := os.ReadFile(filepath.Join(verifDir, "known_findings.json"))
	if err != nil {
		return nil
	}
	var f struct {
		Findings []Finding `json:"findings"`
	}
	if err := json.Unmarshal(raw, &f); err != nil {
		fatal2("known_findings.json: %v", err)
	}
	return f.Findings
}
