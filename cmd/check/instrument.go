package main

import "fmt"

// InstrSpec selects which seams the AST rewriter inserts into one repo file.
type InstrSpec struct {
	File     string // repo-relative path
	Yield    bool   // yield + lock seams (scheduler)
	MapOrder bool   // range-over-map seam
}

func instrumentFile(src, dst string, is InstrSpec) error {
	return fmt.Errorf("instrumenter not built yet")
}
