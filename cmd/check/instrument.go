package main

import (
	"fmt"
	"os"
	"path/filepath"
	"strings"

	"verif/instrument"
)

// InstrSpec selects which seams the AST rewriter inserts into one repo file.
type InstrSpec struct {
	File string // repo-relative path
	Opt  instrument.Options
}

// instrumentAll regenerates the instrumented copies of h.Instrument from the
// current /repo tree into workDir and returns repo path -> generated path.
func instrumentAll(h *Harness, workDir, overlayPath string, env []string) (map[string]string, error) {
	out := map[string]string{}
	byPkg := map[string][]InstrSpec{}
	var order []string
	for _, is := range h.Instrument {
		d := filepath.Dir(is.File)
		if _, ok := byPkg[d]; !ok {
			order = append(order, d)
		}
		byPkg[d] = append(byPkg[d], is)
	}
	for _, d := range order {
		pkg, err := instrument.Load(repoDir, d, overlayPath, env)
		if err != nil {
			return nil, err
		}
		for _, is := range byPkg[d] {
			src, counts, err := pkg.File(filepath.Join(repoDir, is.File), is.Opt)
			if err != nil {
				return nil, fmt.Errorf("%s: %w", is.File, err)
			}
			dst := filepath.Join(workDir, "instr", strings.ReplaceAll(is.File, "/", "__"))
			os.MkdirAll(filepath.Dir(dst), 0o755)
			if err := os.WriteFile(dst, src, 0o644); err != nil {
				return nil, err
			}
			_ = counts
			for _, w := range instrument.Warnings {
				fmt.Fprintln(os.Stderr, "NOTE: instrumenter:", w)
			}
			instrument.Warnings = nil
			out[filepath.Join(repoDir, is.File)] = dst
		}
	}
	return out, nil
}
