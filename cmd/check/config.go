package main

import (
	"crypto/sha256"
	"encoding/hex"
	"fmt"
	"os"
	"os/exec"
	"path/filepath"
	"sort"
	"strings"
)

// Harness describes one simulator test binary built inside the repo module through an overlay.
type Harness struct {
	PkgDir     string            // repo-relative package directory the test binary is built from
	TestName   string            // Test function that calls sim.WorkerMain
	Files      map[string]string // repo-relative target path -> /verif-relative source file
	Instrument []InstrSpec       // repo files replaced by instrumented copies (regenerated every build)
	Race       bool
	GoMaxProcs int
	MemLimitMB int
}

// Check binds a property to a harness and its budgets.
type Check struct {
	Property     string
	Harness      string
	Level        string
	Quick        tierCfg
	Thorough     tierCfg
	MaxWorkers   int
	RunTimeoutS  float64
	Params       map[string]string
	Rule         string
	Real, Stub   []string
	Assumptions  []string
	ExpectProbes []string
	LevelText    string
	LevelNote    string
	Technique    string
	DesignRef    string
}

func findCheck(id string) *Check {
	for i := range checks {
		if checks[i].Property == id {
			return &checks[i]
		}
	}
	return nil
}

const zz = "internal/zzverif/"

var vrfStub = "pkg/Rust-VRF/vrf-func-ffi/src/vrf.go (pure-Go deterministic stand-in injected by overlay; no cryptographic security)"

var harnesses = map[string]*Harness{
	"h5db": {
		PkgDir:   zz + "h5db",
		TestName: "TestVerifH5DB",
		Files: map[string]string{
			zz + "h5db/h5db_test.go": "harness/h5db/h5db_test.go",
		},
		GoMaxProcs: 2,
	},
}

var checks = []Check{
	{
		Property: "C27", Harness: "h5db", Level: "exploration",
		Quick:    tierCfg{budget: 40, shrink: 400},
		Thorough: tierCfg{budget: 900, shrink: 3000},
		Rule: "one evaluation = one tape-generated operation history (puts, deletes, gets, batches committed/discarded/abandoned, iterators with prefix/start pairs, caller-buffer scribbling after every call) replayed against the three real providers and a sorted-map model; non-trivial = the history contained at least one iterator and one batch commit and >= 8 operations; distinct = distinct hash of (operation sequence incl. arguments)",
		Real: []string{"internal/database/provider/memory", "internal/database/provider/pebble (real Pebble engine on its in-memory vfs)", "internal/database/provider/redis (real go-redis client)"},
		Stub: []string{"Redis server = alicebob/miniredis on a loopback socket (the repo's own test dependency)", "Pebble file system = vfs.NewMem"},
		Assumptions: []string{"sequential histories only: Pebble's and go-redis' internal goroutines are outside the simulator, so no concurrent arm and no I/O-error injection (the property promises nothing under I/O errors)",
			"miniredis returns SCAN results sorted, so an unsorted real Redis reply cannot be observed here"},
		LevelText: "seeded exploration of operation histories (<= 40 operations, keys over a small alphabet with glob metacharacters, empty keys/values) on the three real providers against a sorted-map reference model, with every argument buffer overwritten after each call and returned slices either scribbled or held and re-checked at the end; evidence, not proof",
		LevelNote: "Redis server is the miniredis stand-in (keys restricted to bytes it can translate; backslash/0x80/0xff only in the memory+Pebble arm), Pebble runs on MemFS; sequential histories only, no I/O-error injection",
		Technique: "deterministic simulation: seeded operation/fault histories vs reference model (differential over 3 providers), tape shrinking + fresh-process replay",
		DesignRef: "DESIGN.md §4 H5, §5 C27",
		ExpectProbes: []string{"probe:iter_start_not_prefix", "probe:batch_commit", "probe:batch_discard", "probe:glob_meta_key", "probe:empty_key", "probe:empty_value", "fault:scribble_args", "fault:scribble_result"},
	},
}

// makeOverlay writes instrumented files into workDir and returns the overlay Replace map.
func makeOverlay(h *Harness, workDir string) (map[string]string, string, error) {
	ov := map[string]string{}
	ov[filepath.Join(repoDir, "pkg/Rust-VRF/vrf-func-ffi/src/vrf.go")] = filepath.Join(verifDir, "overlay/vrf/vrf.go")
	simFiles, err := filepath.Glob(filepath.Join(verifDir, "sim", "*.go"))
	if err != nil {
		return nil, "", err
	}
	for _, f := range simFiles {
		if strings.HasSuffix(f, "_test.go") {
			continue
		}
		ov[filepath.Join(repoDir, zz+"sim", filepath.Base(f))] = f
	}
	for dst, src := range h.Files {
		p := filepath.Join(verifDir, src)
		if _, err := os.Stat(p); err != nil {
			return nil, "", fmt.Errorf("harness file missing: %s", p)
		}
		ov[filepath.Join(repoDir, dst)] = p
	}
	for _, is := range h.Instrument {
		out := filepath.Join(workDir, "instr", strings.ReplaceAll(is.File, "/", "__"))
		os.MkdirAll(filepath.Dir(out), 0o755)
		if err := instrumentFile(filepath.Join(repoDir, is.File), out, is); err != nil {
			return nil, "", fmt.Errorf("instrument %s: %w", is.File, err)
		}
		ov[filepath.Join(repoDir, is.File)] = out
	}
	return ov, treeHash(), nil
}

// treeHash identifies the repo source state a run was made against.
func treeHash() string {
	d := sha256.New()
	rev, _ := exec.Command("git", "-C", repoDir, "rev-parse", "HEAD").Output()
	d.Write(rev)
	diff, _ := exec.Command("git", "-C", repoDir, "diff", "HEAD", "--", "*.go").Output()
	d.Write(diff)
	unt, _ := exec.Command("git", "-C", repoDir, "ls-files", "--others", "--exclude-standard", "--", "*.go").Output()
	names := strings.Fields(string(unt))
	sort.Strings(names)
	for _, n := range names {
		b, _ := os.ReadFile(filepath.Join(repoDir, n))
		d.Write([]byte(n))
		d.Write(b)
	}
	return hex.EncodeToString(d.Sum(nil))[:16]
}
