package main

import (
	"crypto/sha256"
	"encoding/hex"
	"encoding/json"
	"fmt"
	"os"
	"os/exec"
	"path/filepath"
	"sort"
	"strings"
	"verif/instrument"
)

// Harness describes one simulator test binary built inside the repo module through an overlay.
type Harness struct {
	PkgDir     string            // repo-relative package directory the test binary is built from
	TestName   string            // Test function that calls sim.WorkerMain
	Files      map[string]string // repo-relative target path -> /verif-relative source file
	Instrument []InstrSpec       // repo files replaced by instrumented copies (regenerated every build)
	Race       bool
	GoMaxProcs int
	MemLimitMB int
}

// Check binds a property to a harness and its budgets.
type Check struct {
	Property     string
	Harness      string
	Level        string
	Quick        tierCfg
	Thorough     tierCfg
	MaxWorkers   int
	Arms         []Arm // additional harnesses that serve the same property; each gets some of the check's workers
	RunTimeoutS  float64
	Params       map[string]string
	Rule         string
	Real, Stub   []string
	Assumptions  []string
	ExpectProbes []string
	LevelText    string
	LevelNote    string
	Technique    string
	DesignRef    string
}

// Arm is an additional harness run inside a check (same property id, its own budgets).
type Arm struct {
	Harness         string
	Workers         int
	Quick, Thorough tierCfg
}

func findCheck(id string) *Check {
	for i := range checks {
		if checks[i].Property == id {
			return &checks[i]
		}
	}
	return nil
}

const zz = "internal/zzverif/"

var vrfStub = "pkg/Rust-VRF/vrf-func-ffi/src/vrf.go (pure-Go deterministic stand-in injected by overlay; no cryptographic security)"

var harnesses = map[string]*Harness{
	"h1tel": {
		PkgDir:   "internal/telemetry",
		TestName: "TestVerifH1",
		Files: map[string]string{
			"internal/telemetry/zz_verif_h1_test.go": "harness/h1tel/zz_verif_h1_test.go",
		},
		Instrument: []InstrSpec{
			{File: "internal/telemetry/tcp.go", Opt: instrument.Options{Yield: true, GoBodyYield: true, MinLock: 6, MinSelect: 4, MinGo: 3}},
			{File: "internal/telemetry/writer.go", Opt: instrument.Options{Yield: true, MinSelect: 1}},
			{File: "internal/telemetry/sequencer.go", Opt: instrument.Options{Yield: true, MinLock: 4}},
		},
		GoMaxProcs: 2,
	},
	"h2sched": {
		PkgDir:   zz + "h2sched",
		TestName: "TestVerifH2",
		Files: map[string]string{
			zz + "h2sched/h2sched_test.go": "harness/h2sched/h2sched_test.go",
			zz + "pvmasm/asm.go":           "harness/pvmasm/asm.go",
		},
		Instrument: []InstrSpec{
			{File: "internal/accumulation/accumulation.go", Opt: instrument.Options{Yield: true, MapOrder: true, GoBodyYield: true, MinLock: 4, MinGo: 3, MinMap: 6}},
			{File: "internal/accumulation/deferred_transfers.go", Opt: instrument.Options{MapOrder: true}},
			{File: "internal/accumulation/extrinsic_preimage.go", Opt: instrument.Options{MapOrder: true}},
			{File: "PVM/accumulate_invocation.go", Opt: instrument.Options{MapOrder: true, MinMap: 3}},
			{File: "PVM/host_call_invocation.go", Opt: instrument.Options{Yield: true, LoopYieldFuncs: []string{"HostCall"}}},
			{File: "PVM/host_call_accumulate.go", Opt: instrument.Options{MapOrder: true}},
			{File: "PVM/host_call_general.go", Opt: instrument.Options{MapOrder: true}},
		},
		GoMaxProcs: 2,
	},
	"h3acc": {
		PkgDir:   zz + "h3acc",
		TestName: "TestVerifH3",
		Files: map[string]string{
			zz + "h3acc/h3acc_test.go":  "harness/h3acc/h3acc_test.go",
			zz + "h3acc/gen_test.go":    "harness/h3acc/gen_test.go",
			zz + "h3acc/refine_test.go": "harness/h3acc/refine_test.go",
			zz + "pvmasm/asm.go":        "harness/pvmasm/asm.go",
		},
		GoMaxProcs: 2,
	},
	"h4chain": {
		PkgDir:   zz + "h4chain",
		TestName: "TestVerifH4",
		Files: map[string]string{
			zz + "h4chain/run_test.go":       "harness/h4chain/run_test.go",
			zz + "h4chain/genesis_test.go":   "harness/h4chain/genesis_test.go",
			zz + "h4chain/author_test.go":    "harness/h4chain/author_test.go",
			zz + "h4chain/plan_test.go":      "harness/h4chain/plan_test.go",
			zz + "h4chain/ref_test.go":       "harness/h4chain/ref_test.go",
			zz + "h4chain/faults_test.go":    "harness/h4chain/faults_test.go",
			zz + "h4chain/phasec_test.go":    "harness/h4chain/phasec_test.go",
			zz + "h4chain/transport_test.go": "harness/h4chain/transport_test.go",
			zz + "h4chain/reports_test.go":   "harness/h4chain/reports_test.go",
			zz + "h4chain/refb_test.go":      "harness/h4chain/refb_test.go",
			zz + "h4chain/fullspec_test.go":  "harness/h4chain/fullspec_test.go",
			zz + "pvmasm/asm.go":             "harness/pvmasm/asm.go",
		},
		// Go's map iteration order is a source of nondeterminism the state codec meets on every export / import:
		// every `range` over a map in these files iterates a permutation derived from the tape
		Instrument: []InstrSpec{
			{File: "internal/utilities/merklization/parse_state_key_vals.go", Opt: instrument.Options{MapOrder: true, MinMap: 4}},
			{File: "internal/utilities/merklization/state_serialize.go", Opt: instrument.Options{MapOrder: true, MinMap: 4}},
		},
		GoMaxProcs: 2,
	},
	"h6codec": {
		PkgDir:   zz + "h6codec",
		TestName: "TestVerifH6",
		Files: map[string]string{
			zz + "h6codec/h6codec_test.go": "harness/h6codec/h6codec_test.go",
		},
		Instrument: []InstrSpec{
			{File: "internal/types/encoder.go", Opt: instrument.Options{Yield: true, Pool: true, MinPool: 2}},
			{File: "internal/types/encode.go", Opt: instrument.Options{Yield: true, MapOrder: true, LoopYieldAll: true, MinMap: 1}},
			// the state serialiser fans out over an errgroup: its goroutines must be simulated goroutines too (they
			// draw encoders from the pool)
			{File: "internal/utilities/merklization/state_serialize.go", Opt: instrument.Options{Yield: true, MapOrder: true, GoBodyYield: true, MinGo: 1}},
			{File: "internal/utilities/merklization/state_key_constructor.go", Opt: instrument.Options{MapOrder: true}},
		},
		GoMaxProcs: 2,
	},
	"h5cache": {
		PkgDir:   zz + "h5cache",
		TestName: "TestVerifH5Cache",
		Files: map[string]string{
			zz + "h5cache/h5cache_test.go": "harness/h5cache/h5cache_test.go",
		},
		GoMaxProcs: 2,
	},
	"h5db": {
		PkgDir:   zz + "h5db",
		TestName: "TestVerifH5DB",
		Files: map[string]string{
			zz + "h5db/h5db_test.go": "harness/h5db/h5db_test.go",
		},
		GoMaxProcs: 2,
	},
}

var checks = []Check{
	{
		Property: "C11", Harness: "h6codec", Level: "exploration",
		Quick:        tierCfg{budget: 150, maxRuns: 3000, shrink: 200},
		Thorough:     tierCfg{budget: 900, shrink: 1500},
		RunTimeoutS:  120,
		Rule:         "one evaluation = 3-10 generated values of the serialisable protocol types (reflection-driven generator that respects the fixed-length invariants of the codec: validator / core / epoch / queue counts, one-of unions, 15-bit import indices; maps filled in tape order; integers biased to the boundaries of the compact encoding) plus fuzz-protocol messages, encoded once by a private fresh encoder, then encoded / hashed / decoded / re-encoded 2-8 times by each of 1-4 concurrent tasks through the shared encoder pool under a tape-chosen interleaving (yield in every loop of the encoder), pool hand-out order (newest, oldest, random, lost objects) and map iteration order (sorted, reversed, random); non-trivial = at least 2 tasks; distinct = multiset of value types",
		Real:         []string{"internal/types encoder and decoder for every type listed in the harness (blocks, headers, all extrinsics, work packages / items / reports / bundles, every state component, service accounts, state key-values, ancestry)", "the shared encoder pool GetEncoder / PutEncoder (encoder.go instrumented: pool seam), hash.HashEncode", "merklization.StateEncoder", "fuzz.Message MarshalBinary / ReadFrom for all seven message types"},
		Stub:         []string{"sync.Pool behind encoderPool = tape-driven pool (which pooled encoder is handed out, whether a Put is lost)", "goroutine scheduling = harness scheduler inside a testing/synctest bubble", "Go map iteration order in the instrumented codec files = tape-chosen permutation of the sorted keys", vrfStub + " (compile only)"},
		Assumptions:  []string{"PARTIAL: decides the clause a simulator can own - encoding does not depend on map iteration order, on reuse of pooled encoders or on concurrent use of the pool - and checks the round trip on the values that pass through the simulation; it is not the reflection-driven enumeration of every Encodable type the quantifier asks for (JSON DTO types and test-vector-only types are not generated)", "value equality identifies nil and empty slices / maps (the codec cannot distinguish them)"},
		LevelText:    "seeded exploration of pool hand-out orders x task interleavings x map iteration orders over generated protocol values; every encoding produced inside the simulation must equal the encoding a private fresh encoder produced before it, stay unchanged while the pool is reused by others, and decode (consuming exactly its length) to a value equal to the original; evidence, not proof",
		LevelNote:    "partial: the per-value round trip is a pure function and is only checked on the values that pass through the simulation; the deciding dimension is pool reuse / interleaving / map order",
		Technique:    "deterministic simulation: seeded scheduler over real goroutines (synctest bubble, yield seams in the encoder), simulated sync.Pool and map iteration order, reference-encoding oracle, tape shrinking + fresh-process replay",
		DesignRef:    "DESIGN.md §13 (H6), §5 C11",
		ExpectProbes: []string{"probe:pool_encoder_reused", "probe:pool_encoder_fresh", "fault:pool_put_lost", "fault:schedule_decisions", "op:pooled_encode", "op:hash_encode", "op:decode", "op:encode_without_dictionary", "op:state_encoder", "op:message_marshal"},
	},
	{
		Property: "C14", Harness: "h4chain", Level: "exploration",
		Quick:      tierCfg{budget: 150, maxRuns: 3000, shrink: 20},
		Thorough:   tierCfg{budget: 900, shrink: 60},
		MaxWorkers: 6, RunTimeoutS: 120,
		Rule:         "one evaluation = one real fuzz-protocol session (SetState with a generated genesis export and ancestry, ImportBlock with 1-3 author-built blocks incl. tickets/preimages/disputes, GetState, State, StateRoot, PeerInfo, Error) whose frames are damaged in flight 6-15 times (bit flips, byte insert/delete, length-prefix edits to 0/1/2/2^31/2^32-1/+1000, truncation + close, garbage frame, unknown message type, 0xFF runs over inner length prefixes, union tags / option flags / boolean octets at offsets found by differential encoding set to 0..17 and the extremes) and delivered in tape-chosen fragments to the real stream reader Message.ReadFrom; non-trivial = session of >= 6 frames; distinct = decision tape hash",
		Real:         []string{"internal/fuzz Message.ReadFrom and every UnmarshalBinary behind it (PeerInfo, SetState, ImportBlock, GetState, State, StateRoot, ErrorMessage)", "internal/types decoder for blocks, headers, extrinsics, state key-values, ancestry", "the node (SetState/ImportBlock/GetState) to produce the real session"},
		Stub:         []string{"the connection = in-memory fragmenting reader (harness)", vrfStub},
		Assumptions:  []string{"PARTIAL: only the types that travel on the fuzz-protocol wire are reached (no bare work packages); no coverage guidance - this is seeded stream-fault injection on real session traffic, not a fuzzer", "allocation is measured as the growth of runtime.MemStats.TotalAlloc across one ReadFrom call; bound 1024 x delivered bytes + 1 MiB (1024 covers the largest in-memory element per input octet on this wire: a decoder may size a sequence by its length prefix once that prefix is known not to exceed the remaining input)"},
		LevelText:    "seeded exploration of stream faults on real session frames; oracle: no Go panic (own recover, the server's recover is not trusted) and bounded allocation per frame; evidence, not proof",
		LevelNote:    "the process runs without a hard memory limit; hostile length prefixes are detected through the allocation counter, the pages are never touched",
		Technique:    "deterministic simulation of the fuzz-protocol transport: seeded corruption / truncation / fragmentation of real session frames, panic and allocation oracles, tape shrinking + fresh-process replay",
		DesignRef:    "DESIGN.md §4 H4 (transport faults), §5 C14",
		ExpectProbes: []string{"fault:stream_bit-flip", "fault:stream_length-prefix-edit", "fault:stream_truncate-and-close", "fault:stream_garbage-frame", "fault:stream_unknown-message-type", "fault:stream_inner-length-edit", "fault:stream_byte-set", "fault:stream_discriminator-sweep", "fault:stream_compact-integer-truncated", "fault:stream_discriminator_at_known_offset", "fault:stream_payload-cut-length-fixed", "fault:stream_fragmented_delivery", "probe:damaged_frame_rejected_with_error", "probe:damaged_frame_still_decodes"},
	},
	{
		Property: "C26", Harness: "h4chain", Level: "exploration",
		Quick:        tierCfg{budget: 150, maxRuns: 60, shrink: 100},
		Thorough:     tierCfg{budget: 1200, shrink: 1000},
		RunTimeoutS:  240,
		Rule:         "one evaluation = one generated history: synthetic tiny genesis (6 trivial-seed validators - in two histories of three the staging / pending / active / previous sets hold them in different orders; 1-3 services whose identifiers come from a pool of special magnitudes and octet patterns, with storage (also entries whose state key has a chosen second octet), stored / solicited preimages incl. one blob solicited by several services; one history in eight starts from a POPULOUS state: 40-300 further inert services, 40-300 storage entries and values / preimages of 4-100 KB under one service, long storage keys, judgement lists of 40-300 entries; authorizer pools with duplicates, in half of the histories shared between the cores), an author-built block tree (slot gaps across epoch boundaries, tickets, preimages, disputes with real Ed25519 votes, forks), then a delivery schedule with up to 8 faults: a block mutated so that it is rejected at a chosen STF stage (header, disputes, safrole, seal/entropy, extrinsic), re-delivery of the rejected block, a child of the rejected block, a second different invalid block, restart from exported state, GetState of an unknown hash. The schedule is run twice on fresh incarnations: N2 without the blocks a clean node rejects, N1 with them; N1 must answer every valid delivery exactly like N2 (accept/reject, root, GetState) and GetState(head) must be unchanged after every rejection; the same valid sequence on two fresh nodes must give identical roots. non-trivial = at least 3 valid blocks; distinct = decision tape hash",
		Real:         []string{"internal/fuzz.FuzzServiceStub SetState / ImportBlock / GetState", "internal/stf.RunSTF with every stage (safrole, disputes, assurances, reports, accumulation, history, preimages, authorizations, statistics)", "internal/blockchain.ChainState commit / restore / prune, stores on the in-memory provider, leaf cache", "state codec (StateEncoder / StateKeyValsToState) and block codec on every delivery"},
		Stub:         []string{vrfStub, "block author = harness code (fallback and ticket seals through the stand-in, real Ed25519 for disputes); it is not an oracle", "multi-node = sequential incarnations of the process-wide chain-state singleton separated by SetState"},
		Assumptions:  []string{"the VRF is a stand-in: nothing about Bandersnatch is decided and ticket identifiers are stand-in outputs", "one chain state per process: the clean reference node and the node under test are sequential incarnations", "blocks come from the harness author: chains of 3-30 (thorough 60) blocks over several epochs with tickets, preimages, disputes (also against pending reports), assurances, guarantees (current and previous rotation, dependencies between packages) and the accumulation of the reports that become available by real PVM runs of small generated service programs (fetch, write, checkpoint, assign, transfer, forget + solicit of one preimage that thereby runs through its whole life cycle, new - services born on chain -, yield)"},
		LevelText:    "seeded exploration of block histories with injected rejections at every STF stage, retries, orphans and restarts; the oracle is a second incarnation of the real node that never saw the rejected blocks; evidence, not proof",
		LevelNote:    "what \"same result\" means: accept/reject decision, returned root, GetState key-value set (error texts are logged, not compared); the observation that a node which imported other VALID branches can answer differently from a node that imported only a block's ancestry is counted as a by-product (not claimed by the property text)",
		Technique:    "deterministic simulation of the node under seeded block histories with fault injection (invalid blocks rejected at chosen STF stages, retries, children of rejected blocks, forks, restarts from exported state), reference-node and reference-model oracles, tape shrinking + fresh-process replay",
		DesignRef:    "DESIGN.md §4 H4, Appendix A",
		ExpectProbes: []string{"fault:delivered_invalid", "fault:delivered_retry", "fault:delivered_orphan", "fault:restart_from_export", "probe:valid_block_accepted_after_fault", "rejections_by_stage:2", "rejections_by_stage:4", "rejections_by_stage:5", "rejections_by_stage:6", "rejections_by_stage:7", "rejections_by_stage:8", "rejections_by_stage:9", "fault:fork_sibling_built", "fault:damaged_block_is_a_sibling", "probe:reports_became_available_in_history", "fault:rejected_block_on_other_fork_than_head", "fault:orphan_is_otherwise_valid_child_of_head_on_other_fork", "probe:service_id_with_special_octets"},
	},
	{
		Property: "C17", Harness: "h4chain", Level: "exploration",
		Quick:        tierCfg{budget: 150, maxRuns: 60, shrink: 100},
		Thorough:     tierCfg{budget: 1200, shrink: 1000},
		RunTimeoutS:  240,
		Rule:         "one evaluation = one generated history: synthetic tiny genesis (6 trivial-seed validators - in two histories of three the staging / pending / active / previous sets hold them in different orders; 1-3 services whose identifiers come from a pool of special magnitudes and octet patterns, with storage (also entries whose state key has a chosen second octet), stored / solicited preimages incl. one blob solicited by several services; one history in eight starts from a POPULOUS state: 40-300 further inert services, 40-300 storage entries and values / preimages of 4-100 KB under one service, long storage keys, judgement lists of 40-300 entries; authorizer pools with duplicates, in half of the histories shared between the cores), an author-built block tree (slot gaps across epoch boundaries, tickets, preimages, disputes with real Ed25519 votes, forks), every exported state (GetState after every accepted block, on fresh incarnations) is parsed back and re-serialised together with its raw entries and must give the exported key-value set; restarts: SetState with the export in a permuted key order (with or without ancestry) must return the root of the exported set and export the same set again, and the node must then continue like the node that was not restarted (C26 oracle)",
		Real:         []string{"internal/fuzz.FuzzServiceStub SetState / ImportBlock / GetState", "internal/stf.RunSTF with every stage (safrole, disputes, assurances, reports, accumulation, history, preimages, authorizations, statistics)", "internal/blockchain.ChainState commit / restore / prune, stores on the in-memory provider, leaf cache", "state codec (StateEncoder / StateKeyValsToState) and block codec on every delivery"},
		Stub:         []string{vrfStub, "block author = harness code (fallback and ticket seals through the stand-in, real Ed25519 for disputes); it is not an oracle", "multi-node = sequential incarnations of the process-wide chain-state singleton separated by SetState"},
		Assumptions:  []string{"the VRF is a stand-in: nothing about Bandersnatch is decided and ticket identifiers are stand-in outputs", "one chain state per process: the clean reference node and the node under test are sequential incarnations", "blocks come from the harness author: chains of 3-30 (thorough 60) blocks over several epochs with tickets, preimages, disputes (also against pending reports), assurances, guarantees (current and previous rotation, dependencies between packages) and the accumulation of the reports that become available by real PVM runs of small generated service programs (fetch, write, checkpoint, assign, transfer, forget + solicit of one preimage that thereby runs through its whole life cycle, new - services born on chain -, yield)"},
		LevelText:    "seeded exploration; restart-from-export and fork-restore are the injected faults; evidence, not proof. State richness is limited to what stage-A blocks produce (services with storage, stored and solicited preimages, tickets, disputes, statistics)",
		LevelNote:    "raw (unattributable) entries appear only if the parser leaves any; the comparison is on key-value sets",
		Technique:    "deterministic simulation of the node under seeded block histories with fault injection (invalid blocks rejected at chosen STF stages, retries, children of rejected blocks, forks, restarts from exported state), reference-node and reference-model oracles, tape shrinking + fresh-process replay",
		DesignRef:    "DESIGN.md §4 H4, Appendix A",
		ExpectProbes: []string{"probe:export_roundtrip_checked", "probe:export_with_raw_entries", "fault:restart_from_export", "probe:populous_genesis_state", "probe:storage_entries_sharing_an_8_octet_state_key_prefix"},
	},
	{
		Property: "C23", Harness: "h4chain", Level: "exploration",
		Quick:        tierCfg{budget: 150, maxRuns: 60, shrink: 100},
		Thorough:     tierCfg{budget: 1200, shrink: 1000},
		RunTimeoutS:  240,
		Rule:         "one evaluation = one generated history: synthetic tiny genesis (6 trivial-seed validators - in two histories of three the staging / pending / active / previous sets hold them in different orders; 1-3 services whose identifiers come from a pool of special magnitudes and octet patterns, with storage (also entries whose state key has a chosen second octet), stored / solicited preimages incl. one blob solicited by several services; one history in eight starts from a POPULOUS state: 40-300 further inert services, 40-300 storage entries and values / preimages of 4-100 KB under one service, long storage keys, judgement lists of 40-300 entries; authorizer pools with duplicates, in half of the histories shared between the cores), an author-built block tree (slot gaps across epoch boundaries, tickets, preimages, disputes with real Ed25519 votes, forks), for every block a fresh node accepts, the reference ticket accumulator (lowest identifiers of carried-over and new tickets, strictly increasing, at most E, reset at an epoch change) and the reference slot-sealer sequence (unchanged within an epoch; outside-in of a full accumulator when the epoch advances by one and the prior slot index is at or after the submission end; otherwise entropy-derived fallback keys) are compared with the exported state; blocks with unsorted, duplicated, over-attempt or late tickets must be rejected by a fresh node",
		Real:         []string{"internal/fuzz.FuzzServiceStub SetState / ImportBlock / GetState", "internal/stf.RunSTF with every stage (safrole, disputes, assurances, reports, accumulation, history, preimages, authorizations, statistics)", "internal/blockchain.ChainState commit / restore / prune, stores on the in-memory provider, leaf cache", "state codec (StateEncoder / StateKeyValsToState) and block codec on every delivery"},
		Stub:         []string{vrfStub, "block author = harness code (fallback and ticket seals through the stand-in, real Ed25519 for disputes); it is not an oracle", "multi-node = sequential incarnations of the process-wide chain-state singleton separated by SetState"},
		Assumptions:  []string{"the VRF is a stand-in: nothing about Bandersnatch is decided and ticket identifiers are stand-in outputs", "one chain state per process: the clean reference node and the node under test are sequential incarnations", "blocks come from the harness author: chains of 3-30 (thorough 60) blocks over several epochs with tickets, preimages, disputes (also against pending reports), assurances, guarantees (current and previous rotation, dependencies between packages) and the accumulation of the reports that become available by real PVM runs of small generated service programs (fetch, write, checkpoint, assign, transfer, forget + solicit of one preimage that thereby runs through its whole life cycle, new - services born on chain -, yield)"},
		LevelText:    "seeded exploration over multi-epoch histories with a reference model written from the property text; evidence, not proof",
		LevelNote:    "ticket identifiers are stand-in VRF outputs; ring proofs are stand-in",
		Technique:    "deterministic simulation of the node under seeded block histories with fault injection (invalid blocks rejected at chosen STF stages, retries, children of rejected blocks, forks, restarts from exported state), reference-node and reference-model oracles, tape shrinking + fresh-process replay",
		DesignRef:    "DESIGN.md §4 H4, Appendix A",
		ExpectProbes: []string{"probe:tickets_accumulated", "probe:sealer_sequence_fallback_on_epoch_change", "fault:invalid_block:tickets-unsorted", "fault:invalid_block:tickets-duplicate", "fault:invalid_block:ticket-over-attempt", "fault:invalid_block:tickets-after-submission-window", "fault:invalid_block:ticket-already-in-accumulator", "probe:full_accumulator_closed_window_then_skipped_epoch", "probe:accumulator_full", "probe:sealer_sequence_from_tickets"},
	},
	{
		Property: "C25", Harness: "h4chain", Level: "exploration",
		Quick:        tierCfg{budget: 150, maxRuns: 60, shrink: 100},
		Thorough:     tierCfg{budget: 1200, shrink: 1000},
		RunTimeoutS:  240,
		Rule:         "one evaluation = one generated history: synthetic tiny genesis (6 trivial-seed validators - in two histories of three the staging / pending / active / previous sets hold them in different orders; 1-3 services whose identifiers come from a pool of special magnitudes and octet patterns, with storage (also entries whose state key has a chosen second octet), stored / solicited preimages incl. one blob solicited by several services; one history in eight starts from a POPULOUS state: 40-300 further inert services, 40-300 storage entries and values / preimages of 4-100 KB under one service, long storage keys, judgement lists of 40-300 entries; authorizer pools with duplicates, in half of the histories shared between the cores), an author-built block tree (slot gaps across epoch boundaries, tickets, preimages, disputes with real Ed25519 votes, forks), for every accepted block the reference recent-history transition (previous newest entry gets the block's parent state root; new entry with header hash, zero state root, reported packages sorted by hash and the super-peak of the Keccak mountain range after appending the commitment of the block's accumulation outputs; at most H entries, oldest dropped) and the reference range peaks are compared with the exported state",
		Real:         []string{"internal/fuzz.FuzzServiceStub SetState / ImportBlock / GetState", "internal/stf.RunSTF with every stage (safrole, disputes, assurances, reports, accumulation, history, preimages, authorizations, statistics)", "internal/blockchain.ChainState commit / restore / prune, stores on the in-memory provider, leaf cache", "state codec (StateEncoder / StateKeyValsToState) and block codec on every delivery"},
		Stub:         []string{vrfStub, "block author = harness code (fallback and ticket seals through the stand-in, real Ed25519 for disputes); it is not an oracle", "multi-node = sequential incarnations of the process-wide chain-state singleton separated by SetState"},
		Assumptions:  []string{"the VRF is a stand-in: nothing about Bandersnatch is decided and ticket identifiers are stand-in outputs", "one chain state per process: the clean reference node and the node under test are sequential incarnations", "blocks come from the harness author: chains of 3-30 (thorough 60) blocks over several epochs with tickets, preimages, disputes (also against pending reports), assurances, guarantees (current and previous rotation, dependencies between packages) and the accumulation of the reports that become available by real PVM runs of small generated service programs (fetch, write, checkpoint, assign, transfer, forget + solicit of one preimage that thereby runs through its whole life cycle, new - services born on chain -, yield)"},
		LevelText:    "seeded exploration over histories longer than H with a reference model (own MMR append / super-peak / well-balanced Merkle root); evidence, not proof. Stage A: no guarantees, accumulation outputs are empty",
		LevelNote:    "the block header hash is the repository's (hash of the encoded header)",
		Technique:    "deterministic simulation of the node under seeded block histories with fault injection (invalid blocks rejected at chosen STF stages, retries, children of rejected blocks, forks, restarts from exported state), reference-node and reference-model oracles, tape shrinking + fresh-process replay",
		DesignRef:    "DESIGN.md §4 H4, Appendix A",
		ExpectProbes: []string{"probe:history_at_capacity", "probe:history_full_oldest_dropped", "probe:block_with_reported_packages", "probe:block_with_two_or_more_accumulation_outputs"},
	},
	{
		Property: "C34", Harness: "h4chain", Level: "exploration",
		Quick:        tierCfg{budget: 150, maxRuns: 60, shrink: 100},
		Thorough:     tierCfg{budget: 1200, shrink: 1000},
		RunTimeoutS:  240,
		Rule:         "one evaluation = one generated history: synthetic tiny genesis (6 trivial-seed validators - in two histories of three the staging / pending / active / previous sets hold them in different orders; 1-3 services whose identifiers come from a pool of special magnitudes and octet patterns, with storage (also entries whose state key has a chosen second octet), stored / solicited preimages incl. one blob solicited by several services; one history in eight starts from a POPULOUS state: 40-300 further inert services, 40-300 storage entries and values / preimages of 4-100 KB under one service, long storage keys, judgement lists of 40-300 entries; authorizer pools with duplicates, in half of the histories shared between the cores), an author-built block tree (slot gaps across epoch boundaries, tickets, preimages, disputes with real Ed25519 votes, forks), for every accepted block the reference validator records (author: +1 block, +tickets, +preimages, +preimage octets; assurers +1; guarantors +1; at an epoch change current becomes previous and is reset), service records (provided count/size from the preimage extrinsic) and all-zero core records when nothing is reported or available are compared with the exported state",
		Real:         []string{"internal/fuzz.FuzzServiceStub SetState / ImportBlock / GetState", "internal/stf.RunSTF with every stage (safrole, disputes, assurances, reports, accumulation, history, preimages, authorizations, statistics)", "internal/blockchain.ChainState commit / restore / prune, stores on the in-memory provider, leaf cache", "state codec (StateEncoder / StateKeyValsToState) and block codec on every delivery"},
		Stub:         []string{vrfStub, "block author = harness code (fallback and ticket seals through the stand-in, real Ed25519 for disputes); it is not an oracle", "multi-node = sequential incarnations of the process-wide chain-state singleton separated by SetState"},
		Assumptions:  []string{"the VRF is a stand-in: nothing about Bandersnatch is decided and ticket identifiers are stand-in outputs", "one chain state per process: the clean reference node and the node under test are sequential incarnations", "blocks come from the harness author: chains of 3-30 (thorough 60) blocks over several epochs with tickets, preimages, disputes (also against pending reports), assurances, guarantees (current and previous rotation, dependencies between packages) and the accumulation of the reports that become available by real PVM runs of small generated service programs (fetch, write, checkpoint, assign, transfer, forget + solicit of one preimage that thereby runs through its whole life cycle, new - services born on chain -, yield)"},
		LevelText:    "seeded exploration across epoch boundaries with a reference model; evidence, not proof. Stage A: guarantor / assurer / core / refinement / accumulation parts are exercised only with empty inputs",
		LevelNote:    "the accumulation gas figure of the service statistics is taken from the implementation (the service programs are not metered independently): only \"non-zero iff the service accumulated\" is judged for it; per-block references judge the states of the clean import path, what forks and refusals leave behind is the C26 check",
		Technique:    "deterministic simulation of the node under seeded block histories with fault injection (invalid blocks rejected at chosen STF stages, retries, children of rejected blocks, forks, restarts from exported state), reference-node and reference-model oracles, tape shrinking + fresh-process replay",
		DesignRef:    "DESIGN.md §4 H4, Appendix A",
		ExpectProbes: []string{"probe:statistics_epoch_rollover", "probe:guarantor_credited", "probe:core_record_nonzero", "probe:service_accumulated_work", "probe:service_refinement_recorded", "probe:report_with_large_counts"},
	},
	{
		Property: "C35", Harness: "h4chain", Level: "exploration",
		Quick:        tierCfg{budget: 150, maxRuns: 60, shrink: 100},
		Thorough:     tierCfg{budget: 1200, shrink: 1000},
		RunTimeoutS:  240,
		Rule:         "one evaluation = one generated history: synthetic tiny genesis (6 trivial-seed validators - in two histories of three the staging / pending / active / previous sets hold them in different orders; 1-3 services whose identifiers come from a pool of special magnitudes and octet patterns, with storage (also entries whose state key has a chosen second octet), stored / solicited preimages incl. one blob solicited by several services; one history in eight starts from a POPULOUS state: 40-300 further inert services, 40-300 storage entries and values / preimages of 4-100 KB under one service, long storage keys, judgement lists of 40-300 entries; authorizer pools with duplicates, in half of the histories shared between the cores), an author-built block tree (slot gaps across epoch boundaries, tickets, preimages, disputes with real Ed25519 votes, forks), dispute extrinsics carry verdicts of the three defined outcomes (2/3+1, 0, 1/3 positive votes) with real Ed25519 votes by current or previous-epoch validators and the culprits / faults they require; for every accepted block the reference judgement sets (pairwise disjoint, sorted, grown by exactly the new verdicts) and offender set (sorted, only growing) are compared with the exported state; a verdict with any other vote count must be rejected by a fresh node",
		Real:         []string{"internal/fuzz.FuzzServiceStub SetState / ImportBlock / GetState", "internal/stf.RunSTF with every stage (safrole, disputes, assurances, reports, accumulation, history, preimages, authorizations, statistics)", "internal/blockchain.ChainState commit / restore / prune, stores on the in-memory provider, leaf cache", "state codec (StateEncoder / StateKeyValsToState) and block codec on every delivery"},
		Stub:         []string{vrfStub, "block author = harness code (fallback and ticket seals through the stand-in, real Ed25519 for disputes); it is not an oracle", "multi-node = sequential incarnations of the process-wide chain-state singleton separated by SetState"},
		Assumptions:  []string{"the VRF is a stand-in: nothing about Bandersnatch is decided and ticket identifiers are stand-in outputs", "one chain state per process: the clean reference node and the node under test are sequential incarnations", "blocks come from the harness author: chains of 3-30 (thorough 60) blocks over several epochs with tickets, preimages, disputes (also against pending reports), assurances, guarantees (current and previous rotation, dependencies between packages) and the accumulation of the reports that become available by real PVM runs of small generated service programs (fetch, write, checkpoint, assign, transfer, forget + solicit of one preimage that thereby runs through its whole life cycle, new - services born on chain -, yield)"},
		LevelText:    "seeded exploration with a reference model; evidence, not proof. Stage A: no pending reports, so the 'removed from pending availability' clause is only checked vacuously",
		LevelNote:    "at most two offenders per history so that enough keyed validators remain to author blocks; histories run the tiny parameter set, one run in six also evaluates the disputes transition alone under the full set (1023 Ed25519 validators)",
		Technique:    "deterministic simulation of the node under seeded block histories with fault injection (invalid blocks rejected at chosen STF stages, retries, children of rejected blocks, forks, restarts from exported state), reference-node and reference-model oracles, tape shrinking + fresh-process replay",
		DesignRef:    "DESIGN.md §4 H4, Appendix A",
		ExpectProbes: []string{"probe:verdict_good", "probe:verdict_bad", "probe:verdict_wonky", "probe:offenders_added", "probe:disputes_evaluated_under_full_parameter_set", "fault:invalid_block:verdict-other-vote-count", "probe:judged_report_left_pending_availability", "fault:judged_report_judged_again_with_another_class"},
	},
	{
		Property: "C31", Harness: "h4chain", Level: "exploration",
		Quick:        tierCfg{budget: 150, maxRuns: 60, shrink: 100},
		Thorough:     tierCfg{budget: 1200, shrink: 1000},
		RunTimeoutS:  240,
		Rule:         "one evaluation = one generated history: synthetic tiny genesis (6 trivial-seed validators - in two histories of three the staging / pending / active / previous sets hold them in different orders; 1-3 services whose identifiers come from a pool of special magnitudes and octet patterns, with storage (also entries whose state key has a chosen second octet), stored / solicited preimages incl. one blob solicited by several services; one history in eight starts from a POPULOUS state: 40-300 further inert services, 40-300 storage entries and values / preimages of 4-100 KB under one service, long storage keys, judgement lists of 40-300 entries; authorizer pools with duplicates, in half of the histories shared between the cores), an author-built block tree (slot gaps across epoch boundaries, tickets, preimages, disputes with real Ed25519 votes, forks), preimage extrinsics provide solicited-but-unprovided blobs; blocks with unsorted, duplicated, unsolicited or already-provided entries must be rejected by a fresh node; every accepted preimage must be stored with the block's slot as the single start of its availability",
		Real:         []string{"internal/fuzz.FuzzServiceStub SetState / ImportBlock / GetState", "internal/stf.RunSTF with every stage (safrole, disputes, assurances, reports, accumulation, history, preimages, authorizations, statistics)", "internal/blockchain.ChainState commit / restore / prune, stores on the in-memory provider, leaf cache", "state codec (StateEncoder / StateKeyValsToState) and block codec on every delivery"},
		Stub:         []string{vrfStub, "block author = harness code (fallback and ticket seals through the stand-in, real Ed25519 for disputes); it is not an oracle", "multi-node = sequential incarnations of the process-wide chain-state singleton separated by SetState"},
		Assumptions:  []string{"the VRF is a stand-in: nothing about Bandersnatch is decided and ticket identifiers are stand-in outputs", "one chain state per process: the clean reference node and the node under test are sequential incarnations", "blocks come from the harness author: chains of 3-30 (thorough 60) blocks over several epochs with tickets, preimages, disputes (also against pending reports), assurances, guarantees (current and previous rotation, dependencies between packages) and the accumulation of the reports that become available by real PVM runs of small generated service programs (fetch, write, checkpoint, assign, transfer, forget + solicit of one preimage that thereby runs through its whole life cycle, new - services born on chain -, yield)"},
		LevelText:    "seeded exploration of admission and integration over block histories; evidence, not proof. PARTIAL: the historical-lookup function clause is a pure function that no on-chain path reaches; it is evaluated as a by-product on every stored preimage of every reached state (entries with 0, 1, 2 and 3 recorded slots) at the boundaries of the recorded slots and compared with the availability intervals the property states",
		LevelNote:    "the lookup clause rides on the reached states: times are the recorded slots, one before and one after each, 0, the head slot and a far future slot; four-slot records and arbitrary times are not explored",
		Technique:    "deterministic simulation of the node under seeded block histories with fault injection (invalid blocks rejected at chosen STF stages, retries, children of rejected blocks, forks, restarts from exported state), reference-node and reference-model oracles, tape shrinking + fresh-process replay",
		DesignRef:    "DESIGN.md §4 H4, Appendix A",
		ExpectProbes: []string{"probe:preimage_integrated", "probe:historical_lookup_evaluated", "probe:hundreds_of_solicited_preimages_in_genesis", "probe:historical_lookup_on_three_slot_entry", "fault:invalid_block:preimage-unsolicited", "fault:invalid_block:preimage-solicited-by-another-service-only", "fault:invalid_block:preimage-already-provided", "fault:invalid_block:preimages-unsorted", "fault:invalid_block:preimage-duplicate"},
	},
	{
		Property: "C24", Harness: "h4chain", Level: "exploration",
		Quick:        tierCfg{budget: 150, maxRuns: 60, shrink: 100},
		Thorough:     tierCfg{budget: 1200, shrink: 1000},
		RunTimeoutS:  240,
		Rule:         "one evaluation = one generated history: synthetic tiny genesis (6 trivial-seed validators - in two histories of three the staging / pending / active / previous sets hold them in different orders; 1-3 services whose identifiers come from a pool of special magnitudes and octet patterns, with storage (also entries whose state key has a chosen second octet), stored / solicited preimages incl. one blob solicited by several services; one history in eight starts from a POPULOUS state: 40-300 further inert services, 40-300 storage entries and values / preimages of 4-100 KB under one service, long storage keys, judgement lists of 40-300 entries; authorizer pools with duplicates, in half of the histories shared between the cores), an author-built block tree (slot gaps across epoch boundaries, tickets, preimages, disputes with real Ed25519 votes, forks), for every accepted block the reference pool transition per core (prior pool minus the leftmost occurrence of each authorizer used by that core's guarantees, plus the queue entry selected by the slot, last O kept) is compared with the exported state",
		Real:         []string{"internal/fuzz.FuzzServiceStub SetState / ImportBlock / GetState", "internal/stf.RunSTF with every stage (safrole, disputes, assurances, reports, accumulation, history, preimages, authorizations, statistics)", "internal/blockchain.ChainState commit / restore / prune, stores on the in-memory provider, leaf cache", "state codec (StateEncoder / StateKeyValsToState) and block codec on every delivery"},
		Stub:         []string{vrfStub, "block author = harness code (fallback and ticket seals through the stand-in, real Ed25519 for disputes); it is not an oracle", "multi-node = sequential incarnations of the process-wide chain-state singleton separated by SetState"},
		Assumptions:  []string{"the VRF is a stand-in: nothing about Bandersnatch is decided and ticket identifiers are stand-in outputs", "one chain state per process: the clean reference node and the node under test are sequential incarnations", "blocks come from the harness author: chains of 3-30 (thorough 60) blocks over several epochs with tickets, preimages, disputes (also against pending reports), assurances, guarantees (current and previous rotation, dependencies between packages) and the accumulation of the reports that become available by real PVM runs of small generated service programs (fetch, write, checkpoint, assign, transfer, forget + solicit of one preimage that thereby runs through its whole life cycle, new - services born on chain -, yield)"},
		LevelText:    "seeded exploration over many slots with pools that contain duplicates, guarantees that use pool entries and services that replace a core's queue during accumulation; evidence, not proof",
		LevelNote:    "",
		Technique:    "deterministic simulation of the node under seeded block histories with fault injection (invalid blocks rejected at chosen STF stages, retries, children of rejected blocks, forks, restarts from exported state), reference-node and reference-model oracles, tape shrinking + fresh-process replay",
		DesignRef:    "DESIGN.md §4 H4, Appendix A",
		ExpectProbes: []string{"probe:pool_overflow_oldest_dropped", "probe:authorizer_removed_from_pool", "probe:two_cores_use_the_same_authorizer_in_one_block"},
	},
	{
		Property: "C21", Harness: "h4chain", Level: "exploration",
		Quick:        tierCfg{budget: 150, maxRuns: 60, shrink: 100},
		Thorough:     tierCfg{budget: 1200, shrink: 1000},
		RunTimeoutS:  240,
		Rule:         "one evaluation = one generated history (see C26) in which work reports are guaranteed, assured, become available and are accumulated; for every accepted block the reference selection (GP 12.4-12.12: dependency-free available reports, then the ready queue rotated to the block's slot plus the new reports with dependencies, edited by what is already accumulated, resolved repeatedly) and the reference updates of the accumulated history (12.31/12.32) and of the ready queue (12.33, incl. slot gaps) are compared with the exported state; the statement's invariants (nothing accumulated twice, the kept queue holds no accumulated report and no satisfied dependency) are checked directly; the order in which one service is given several reports is read from what its program stored",
		Real:         []string{"internal/fuzz.FuzzServiceStub SetState / ImportBlock / GetState", "internal/stf.RunSTF with every stage (safrole, disputes, assurances, reports, accumulation, history, preimages, authorizations, statistics)", "internal/blockchain.ChainState commit / restore / prune, stores on the in-memory provider, leaf cache", "state codec (StateEncoder / StateKeyValsToState) and block codec on every delivery"},
		Stub:         []string{vrfStub, "block author = harness code (fallback and ticket seals through the stand-in, real Ed25519 for disputes); it is not an oracle", "multi-node = sequential incarnations of the process-wide chain-state singleton separated by SetState"},
		Assumptions:  []string{"the VRF is a stand-in: nothing about Bandersnatch is decided and ticket identifiers are stand-in outputs", "one chain state per process: the clean reference node and the node under test are sequential incarnations", "blocks come from the harness author: chains of 3-30 (thorough 60) blocks over several epochs with tickets, preimages, disputes (also against pending reports), assurances, guarantees (current and previous rotation, dependencies between packages) and the accumulation of the reports that become available by real PVM runs of small generated service programs (fetch, write, checkpoint, assign, transfer, forget + solicit of one preimage that thereby runs through its whole life cycle, new - services born on chain -, yield)"},
		LevelText:    "seeded exploration of multi-block histories of the ready queue and the accumulated history across slot gaps, epoch boundaries, forks, rejected blocks and restarts; evidence, not proof. PARTIAL: the exhaustive enumeration of all dependency graphs on <=4 reports named in the quantifier is bounded model checking of a pure function and is not done by this technique; graphs arise from the generated histories (<=2 cores, <=2 dependencies per report, chains through the recent history and the same extrinsic)",
		LevelNote:    "",
		Technique:    "deterministic simulation of the node under seeded block histories with fault injection (invalid blocks rejected at chosen STF stages, retries, children of rejected blocks, forks, restarts from exported state), reference-node and reference-model oracles, tape shrinking + fresh-process replay",
		DesignRef:    "DESIGN.md §4 H4, Appendix A",
		ExpectProbes: []string{"probe:reports_became_available", "probe:report_waits_in_ready_queue", "probe:queued_report_accumulated_after_its_dependency"},
	},
	{
		Property: "C22", Harness: "h2sched", Level: "exploration",
		Quick:        tierCfg{budget: 150, maxRuns: 300, shrink: 150},
		Thorough:     tierCfg{budget: 1200, shrink: 1500},
		RunTimeoutS:  120,
		Rule:         "one evaluation = one generated accumulation round (3-8 services with generated code that stores the encoding of all items it is given, in the order presented, and emits 0-20 transfers each - in two runs of three more than a dozen transfers from several senders converge on one receiver; 1-6 work reports; privileged services that re-bless / re-assign) executed 1+5 times (1+12 thorough) through the real OuterAccumulation under different goroutine schedules, types.MaxWorkers in {1,2,3,16} and map iteration orders; non-trivial = >= 3 services and some receiver gets >= 2 transfers; distinct = hash of the baseline posterior state",
		Real:         []string{"internal/accumulation.OuterAccumulation / ParallelizedAccumulation / SingleServiceAccumulation / Provide (accumulation.go instrumented: errgroup, RWMutex, singleflight seams + range-over-map seam)", "PVM.Psi_A with the whole interpreter and host calls (host_call_invocation.go instrumented: one scheduling point per host call; accumulate_invocation.go, host_call_*.go: range-over-map seam)", "blockchain.ChainState singleton (posterior store, unmatched key-values)"},
		Stub:         []string{"goroutine scheduling = harness scheduler inside a testing/synctest bubble", "Go map iteration order in the instrumented files = tape-chosen permutation of the sorted keys", vrfStub + " (compile only)"},
		Assumptions:  []string{"map iteration in files that are not instrumented keeps Go's own randomisation; an order dependence there would show up as a non-replaying difference (reported as infrastructure error, never as a violation)", "the race detector is not used: under the serialising scheduler every access is ordered, so it could not see unsynchronised accesses"},
		LevelText:    "seeded exploration of schedules x worker-pool sizes x map iteration orders for generated accumulation rounds; all executions of one round must produce the byte-identical canonical posterior state (accounts incl. the order each service observed, privileges, queues, outputs, per-service gas statistics, raw key-values); evidence, not proof",
		LevelNote:    "trusted: the AST instrumenter preserves behaviour; canonical dump is harness code; baseline arm = one worker, sorted map order, first-runnable schedule",
		Technique:    "deterministic simulation: seeded scheduler over real goroutines (synctest bubble + errgroup/lock/singleflight/host-call seams), simulated map iteration order and worker-pool knob, N-version comparison of posterior states, tape shrinking + fresh-process replay",
		DesignRef:    "DESIGN.md §3.3, §4 H2, §5 C22",
		ExpectProbes: []string{"probe:receiver_with_more_than_a_dozen_transfers", "arm:workers=1", "arm:workers=2", "arm:workers=3", "arm:workers=16", "fault:schedule_decisions", "probe:account_ejected_in_round", "probe:transfer_to_account_ejected_in_same_round"},
	},
	{
		Property: "C10", Harness: "h3acc", Level: "fault_enumeration",
		Quick:        tierCfg{budget: 150, maxRuns: 300, shrink: 300},
		Thorough:     tierCfg{budget: 900, shrink: 3000},
		Rule:         "one evaluation = one generated accumulate program (1-40 host calls drawn from write/read/info/lookup/new/upgrade/transfer/eject/query/solicit/forget/yield/provide/checkpoint/bless/assign/designate/gas/unknown, ending in halt with 0/32/other-length output, trap or a gas-burning loop) on a generated partial state, executed with unlimited gas and then with a tape-chosen gas limit (one run in ten: every limit 0..need+1); non-trivial = at least 3 observed host calls; distinct = hash of (program shape, observed call results)",
		Real:         []string{"PVM.Psi_A end to end: standard-program initialiser, block engine, every accumulate and general host call (real functions reached through wrappers placed in the exported PVM.AccumulateOmegas slice), checkpoint/collapse functions, deep copies", "internal/service_account threshold/footprint helpers", "internal/utilities/merklization raw key constructors"},
		Stub:         []string{"guest programs are generated by the harness assembler (straight-line load_imm_64/ecalli groups ending in halt/trap/gas-burning loop); " + vrfStub + " (compile only)"},
		Assumptions:  []string{"abort points are reached through the gas limit (tape-chosen, or every limit 0..need+1 in sweep runs) and through traps / unreadable pointers; per-step observation = serialised snapshots of the X and Y contexts taken by wrappers around the real host-call functions", "the instruction mix is what the builder emits (load_imm_64, ecalli, jump_ind, trap, jump, fallthrough); other opcodes are not exercised here"},
		LevelText:    "every abort point of sampled programs is enumerated through the gas limit (sweep runs) and sampled otherwise; after each run the returned state must equal the snapshot taken at the most recent checkpoint (or the initial context) on panic/out-of-gas and the latest snapshot on halt, and the checkpoint copy must never change between checkpoints (aliasing); evidence over generated programs, not proof",
		LevelNote:    "snapshots are serialised by harness code; expected initial context = inputs + credited incoming transfers; outcome (halt/abort) is derived from the observation log and the static shape of the program",
		Technique:    "deterministic simulation of the accumulation transaction: seeded host-call histories with injected abort points (gas exhaustion at tape-chosen / exhaustively swept step boundaries, traps, unreadable pointers), per-step reference-model oracles in exact integers, tape shrinking + fresh-process replay",
		DesignRef:    "DESIGN.md §4 H3, §5 C10",
		ExpectProbes: []string{"probe:checkpoint_taken", "probe:abort_after_checkpoint", "probe:aborted_runs", "probe:halted_runs", "probe:halt_output_overrides_yield", "probe:oog_inside_host_call", "probe:exhaustive_gas_sweeps", "fault:gas_limit_abort_point", "arm:raw_key_value_entries"},
	},
	{
		Property: "C08", Harness: "h3acc", Level: "exploration",
		Quick:        tierCfg{budget: 150, maxRuns: 1500, shrink: 300},
		Thorough:     tierCfg{budget: 900, shrink: 3000},
		Arms:         []Arm{{Harness: "h2sched", Workers: 4, Quick: tierCfg{budget: 150, maxRuns: 250, shrink: 100}, Thorough: tierCfg{budget: 1200, shrink: 1000}}},
		Rule:         "as C10; after every completed host call the exact (big-integer) sum of all balances plus deferred-transfer amounts in context X is compared with the sum before it, and the exact per-call movement is checked (transfer: amount into a deferred transfer; creation: the new account's threshold out of the creator; ejection: the ejected balance to the caller; CASH: nothing changes; other calls: no balance changes); amounts/lengths are aimed at balance-threshold +-1, total balance +-1 and 2^32/2^64 edges",
		Real:         []string{"PVM.Psi_A end to end: standard-program initialiser, block engine, every accumulate and general host call (real functions reached through wrappers placed in the exported PVM.AccumulateOmegas slice), checkpoint/collapse functions, deep copies", "internal/service_account threshold/footprint helpers", "internal/utilities/merklization raw key constructors"},
		Stub:         []string{"guest programs are generated by the harness assembler (straight-line load_imm_64/ecalli groups ending in halt/trap/gas-burning loop); " + vrfStub + " (compile only)"},
		Assumptions:  []string{"abort points are reached through the gas limit (tape-chosen, or every limit 0..need+1 in sweep runs) and through traps / unreadable pointers; per-step observation = serialised snapshots of the X and Y contexts taken by wrappers around the real host-call functions", "the instruction mix is what the builder emits (load_imm_64, ecalli, jump_ind, trap, jump, fallthrough); other opcodes are not exercised here"},
		LevelText:    "seeded exploration of host-call histories with conservation checked in exact integers after every call, across checkpoint/rollback and aborts; evidence, not proof A quarter of the workers run the H2 round simulation instead (parallel invocations, merge of their results, delivery of deferred transfers in later rounds, ejection of services accumulated in the same round) with a round-level conservation oracle: the balances after the round must not exceed the balances before it.",
		LevelNote:    "initial balances are generated consistent with thresholds (slack 0..2^62); incoming-transfer credit is accounted for explicitly",
		Technique:    "deterministic simulation of the accumulation transaction: seeded host-call histories with injected abort points (gas exhaustion at tape-chosen / exhaustively swept step boundaries, traps, unreadable pointers), per-step reference-model oracles in exact integers, tape shrinking + fresh-process replay",
		DesignRef:    "DESIGN.md §4 H3, §5 C08",
		ExpectProbes: []string{"probe:cash_returned", "probe:transfer_ok", "probe:new_ok", "probe:eject_ok", "probe:returned_sum_checked"},
	},
	{
		Property: "C09", Harness: "h3acc", Level: "exploration",
		Quick:        tierCfg{budget: 150, maxRuns: 1500, shrink: 300},
		Thorough:     tierCfg{budget: 900, shrink: 3000},
		Arms:         []Arm{{Harness: "h2sched", Workers: 4, Quick: tierCfg{budget: 150, maxRuns: 250, shrink: 100}, Thorough: tierCfg{budget: 1200, shrink: 1000}}},
		Rule:         "as C10; after every completed host call, for every account, the change of the recorded item/octet counts must equal the change of the counts derived from its dictionary entries plus attributable raw key-value entries; a call returning FULL must leave the whole context byte-identical; the threshold reported by info must equal max(0, B_S+B_I*i+B_L*o-f) in big integers whenever that value fits 64 bits (arms with recorded item counts around 2^32/10 and 2^32, octets near 2^64 and gratis offsets around the raw threshold)",
		Real:         []string{"PVM.Psi_A end to end: standard-program initialiser, block engine, every accumulate and general host call (real functions reached through wrappers placed in the exported PVM.AccumulateOmegas slice), checkpoint/collapse functions, deep copies", "internal/service_account threshold/footprint helpers", "internal/utilities/merklization raw key constructors"},
		Stub:         []string{"guest programs are generated by the harness assembler (straight-line load_imm_64/ecalli groups ending in halt/trap/gas-burning loop); " + vrfStub + " (compile only)"},
		Assumptions:  []string{"abort points are reached through the gas limit (tape-chosen, or every limit 0..need+1 in sweep runs) and through traps / unreadable pointers; per-step observation = serialised snapshots of the X and Y contexts taken by wrappers around the real host-call functions", "the instruction mix is what the builder emits (load_imm_64, ecalli, jump_ind, trap, jump, fallthrough); other opcodes are not exercised here"},
		LevelText:    "seeded exploration of host-call histories with incremental-equals-derived footprint accounting, threshold formula in exact integers and FULL-leaves-state-unchanged checked after every call, incl. entries that exist only as raw key-values; evidence, not proof A quarter of the workers run the H2 round simulation instead (services that solicit / provide / forget a preimage of their own in one invocation, create services, eject services): after the round every account's recorded items and octets must equal what its lookup and storage entries give (the integration of provided blobs happens after the invocations).",
		LevelNote:    "raw key-value entries are attributed through the repository's own state-key constructors; thresholds whose exact value does not fit 64 bits are counted, not judged",
		Technique:    "deterministic simulation of the accumulation transaction: seeded host-call histories with injected abort points (gas exhaustion at tape-chosen / exhaustively swept step boundaries, traps, unreadable pointers), per-step reference-model oracles in exact integers, tape shrinking + fresh-process replay",
		DesignRef:    "DESIGN.md §4 H3, §5 C09",
		ExpectProbes: []string{"probe:full_returned", "probe:threshold_checked", "arm:huge_recorded_counts", "arm:raw_key_value_entries"},
	},
	{
		Property: "C04", Harness: "h3acc", Level: "fault_enumeration",
		Quick:        tierCfg{budget: 150, maxRuns: 120, shrink: 300},
		Thorough:     tierCfg{budget: 900, shrink: 3000},
		Rule:         "as C10, with one run in three an exhaustive sweep over every gas limit 0..need+1 of a short program; checked: each host call charges exactly 10 (transfer additionally its gas argument on success), the instructions between two observed calls charge exactly 1 each, with limit g the run stops out-of-gas exactly where the cost model says, the observed calls and contexts are a prefix of the unlimited run's, reported usage is in [0, limit] (also for limits >= 2^63) and equals limit minus remaining gas on halt",
		Real:         []string{"PVM.Psi_A end to end: standard-program initialiser, block engine, every accumulate and general host call (real functions reached through wrappers placed in the exported PVM.AccumulateOmegas slice), checkpoint/collapse functions, deep copies", "internal/service_account threshold/footprint helpers", "internal/utilities/merklization raw key constructors"},
		Stub:         []string{"guest programs are generated by the harness assembler (straight-line load_imm_64/ecalli groups ending in halt/trap/gas-burning loop); " + vrfStub + " (compile only)"},
		Assumptions:  []string{"abort points are reached through the gas limit (tape-chosen, or every limit 0..need+1 in sweep runs) and through traps / unreadable pointers; per-step observation = serialised snapshots of the X and Y contexts taken by wrappers around the real host-call functions", "the instruction mix is what the builder emits (load_imm_64, ecalli, jump_ind, trap, jump, fallthrough); other opcodes are not exercised here"},
		LevelText:    "gas exhaustion is injected at every step boundary of sampled programs (exhaustive over the limit) and at tape-chosen points otherwise; the cost model comes from the property text; evidence over generated programs, not proof. Only the abort-consistency half of the property is decided: the builder emits load_imm_64, ecalli, move_reg, store_imm_u8, load_u8, fallthrough, branch_eq_imm, jump, jump_ind and trap (host-call groups separated by filler instructions and basic-block boundaries, endings: halt, trap, endless loop, a load / store that faults in the middle of a block); per-opcode charges of the other instructions are not covered",
		LevelNote:    "weak fit: without an abort the property is a pure function; claimed for metering at abort points and reported usage",
		Technique:    "deterministic simulation of the accumulation transaction: seeded host-call histories with injected abort points (gas exhaustion at tape-chosen / exhaustively swept step boundaries, traps, unreadable pointers), per-step reference-model oracles in exact integers, tape shrinking + fresh-process replay",
		DesignRef:    "DESIGN.md §4 H3, §5 C04",
		ExpectProbes: []string{"probe:exhaustive_gas_sweeps", "probe:block_longer_than_65536_instructions", "probe:oog_inside_host_call", "fault:gas_limit_abort_point", "probe:filler_instructions_between_host_calls", "probe:reported_gas_checked_after_trap", "probe:reported_gas_checked_after_memory_fault", "probe:refine_exhaustive_gas_sweeps", "probe:refine_call_charge_checked_9", "probe:refine_call_charge_checked_12"},
	},
	{
		Property: "C16", Harness: "h5cache", Level: "exploration",
		Quick:        tierCfg{budget: 150, maxRuns: 4000, shrink: 400},
		Thorough:     tierCfg{budget: 900, shrink: 3000},
		Rule:         "one evaluation = one history (<= 80 quick / 200 thorough steps) over an evolving entry set on one live ChainState: add / remove / change value keeping length / flip embedded<->hashed / re-insert removed key / clear cache / reset instance / change capacity / compute root (cached vs uncached, sometimes in permuted order); keys share long bit prefixes; capacity knob in {1,2,3,7,64,600}; non-trivial = >= 3 root computations over a pool of >= 3 keys; distinct = decision tape hash",
		Real:         []string{"internal/blockchain.ChainState.ComputeStateRootWithCache / ClearKeyLevelCache / ResetInstance, KeyLevelCache", "internal/utilities/merklization (cached and uncached walks)"},
		Stub:         []string{vrfStub + " (only so that the package compiles; not executed)"},
		Assumptions:  []string{"oracle = the repository's own uncached root for the same entries (the property is an equivalence); an independent bit-level reference trie is also evaluated and its disagreements are counted as a by-product (C15 is not claimed)"},
		LevelText:    "seeded exploration of computation histories with the cache capacity as a randomised knob, explicit clears and instance resets as faults; evidence, not proof",
		LevelNote:    "types.MaxKeyLevelCacheSize is a package variable and is varied by the harness; entries <= ~50 per history, except one history in ten which holds 65-1300 entries (bulk arm, real capacity)",
		Technique:    "deterministic simulation: seeded operation histories on a long-lived component with randomised tuning knob, differential oracle (cached vs from-scratch), tape shrinking + fresh-process replay",
		DesignRef:    "DESIGN.md §4 H5, §5 C16",
		ExpectProbes: []string{"probe:value_changed_same_length", "probe:embedded_hashed_flip", "probe:key_reinserted", "probe:value_padded_or_trimmed_with_zero_octets", "probe:value_one_octet_changed", "probe:hundreds_of_entries_all_cached", "fault:cache_cleared", "fault:instance_reset", "probe:capacity_exceeded_during_walk"},
	},
	{
		Property: "C28", Harness: "h1tel", Level: "exploration",
		Quick:        tierCfg{budget: 150, maxRuns: 6000, shrink: 300},
		Thorough:     tierCfg{budget: 1200, shrink: 3000},
		RunTimeoutS:  120,
		Rule:         "one evaluation = one simulated life of the real telemetry client: 1-6 emitter goroutines x 1-40 emit calls (4 flavours, follow-ups with fresh/stale/invalid parents), optional early Close, tape-chosen schedule (one goroutine released at a time at instrumented seams), simulated clock, dialer and connection faults; non-trivial = at least one connection delivered at least one event and >= 4 emit calls were made; distinct = distinct hash of (decision tape, connections, delivered events, steps)",
		Real:         []string{"internal/telemetry tcpClient: Emit, EmitLazy, EmitFollowup(Lazy), Close, connectLoop, reader goroutine, writeLoop, flushReadyDrops, sequencer, dropState, frame encoders (tcp.go/writer.go/sequencer.go run as AST-instrumented copies of the current tree: yield/lock/go/select seams only)"},
		Stub:         []string{"net.Conn and dialer = in-memory simulated connection (harness)", "clock = testing/synctest fake clock", "goroutine scheduling = harness scheduler (park/release at seams)"},
		Assumptions:  []string{"two Close calls are issued sequentially, never concurrently (sync.Once's internal mutex is outside the scheduler)", "the instrumenter inserts scheduling points only at synchronisation operations (mutex, atomics, channel ops, select, go, WaitGroup.Wait, connection calls); plain memory accesses between them execute atomically", "receiver oracle is harness code written from the property text"},
		LevelText:    "seeded exploration of schedules x clock x connection/dial fault sequences of the real client under a deterministic scheduler, validated by a receiver model (alignment of receiver-assigned ids with returned ids, frame well-formedness, follow-up parents, no phantom/duplicate, emitters never durably blocked); evidence, not proof",
		LevelNote:    "trusted: the AST instrumenter preserves behaviour (seams are no-ops when detached), testing/synctest's fake clock, the harness' connection model; plain (non-synchronising) memory accesses are not preemption points",
		Technique:    "deterministic simulation: seeded scheduler over real goroutines (synctest bubble + park/release seams), simulated clock/transport with fault injection, receiver-model oracle, tape shrinking + fresh-process replay",
		DesignRef:    "DESIGN.md §3.3, §3.4, §4 H1, Appendix B",
		ExpectProbes: []string{"fault:short_write", "fault:write_error_torn", "fault:write_stall", "fault:dial_error", "fault:dial_hang", "fault:dial_slow", "fault:peer_close", "probe:dropped_record_on_wire", "probe:dropped_range_coalesced", "probe:followup_delivered", "probe:lock_contended", "probe:events_on_two_or_more_connections", "probe:close_during_stalled_write", "probe:dial_cancelled_by_close", "probe:epoch_exhausted_degrade", "probe:trailing_partial_frame"},
	},
	{
		Property: "C27", Harness: "h5db", Level: "exploration",
		Quick:    tierCfg{budget: 150, maxRuns: 25000, shrink: 400},
		Thorough: tierCfg{budget: 900, shrink: 3000},
		Rule:     "one evaluation = one tape-generated operation history (puts, deletes, gets, batches committed/discarded/abandoned, iterators with prefix/start pairs, caller-buffer scribbling after every call) replayed against the three real providers and a sorted-map model; non-trivial = the history contained at least one iterator and one batch commit and >= 8 operations; distinct = distinct hash of (operation sequence incl. arguments)",
		Real:     []string{"internal/database/provider/memory", "internal/database/provider/pebble (real Pebble engine on its in-memory vfs)", "internal/database/provider/redis (real go-redis client)"},
		Stub:     []string{"Redis server = alicebob/miniredis on a loopback socket (the repo's own test dependency)", "Pebble file system = vfs.NewMem"},
		Assumptions: []string{"sequential histories only: Pebble's and go-redis' internal goroutines are outside the simulator, so no concurrent arm and no I/O-error injection (the property promises nothing under I/O errors)",
			"miniredis returns SCAN results sorted, so an unsorted real Redis reply cannot be observed here"},
		LevelText:    "seeded exploration of operation histories (<= 40 operations, keys over a small alphabet with glob metacharacters, empty keys/values) on the three real providers against a sorted-map reference model, with every argument buffer overwritten after each call and returned slices either scribbled or held and re-checked at the end; evidence, not proof",
		LevelNote:    "Redis server is the miniredis stand-in, a fresh server per run (keys restricted to bytes it can translate; backslash/0x80/0xff only in the memory+Pebble arm), Pebble runs on MemFS; sequential histories only, no I/O-error injection",
		Technique:    "deterministic simulation: seeded operation/fault histories vs reference model (differential over 3 providers), tape shrinking + fresh-process replay",
		DesignRef:    "DESIGN.md §4 H5, §5 C27",
		ExpectProbes: []string{"probe:iter_start_not_prefix", "probe:batch_commit", "probe:batch_discard", "probe:glob_meta_key", "probe:empty_key", "probe:empty_value", "fault:scribble_args", "fault:scribble_result", "fault:store_restarted", "probe:populated_store_hundreds_of_entries", "probe:large_batch_left_open"},
	},
}

// makeOverlay writes instrumented files into workDir and returns the overlay Replace map.
func makeOverlay(h *Harness, workDir string, env []string) (map[string]string, string, error) {
	ov := map[string]string{}
	ov[filepath.Join(repoDir, "pkg/Rust-VRF/vrf-func-ffi/src/vrf.go")] = filepath.Join(verifDir, "overlay/vrf/vrf.go")
	simFiles, err := filepath.Glob(filepath.Join(verifDir, "sim", "*.go"))
	if err != nil {
		return nil, "", err
	}
	for _, f := range simFiles {
		if strings.HasSuffix(f, "_test.go") {
			continue
		}
		ov[filepath.Join(repoDir, zz+"sim", filepath.Base(f))] = f
	}
	for dst, src := range h.Files {
		p := filepath.Join(verifDir, src)
		if _, err := os.Stat(p); err != nil {
			return nil, "", fmt.Errorf("harness file missing: %s", p)
		}
		ov[filepath.Join(repoDir, dst)] = p
	}
	simrtFiles, _ := filepath.Glob(filepath.Join(verifDir, "simrt", "*.go"))
	for _, f := range simrtFiles {
		ov[filepath.Join(repoDir, zz+"simrt", filepath.Base(f))] = f
	}
	if len(h.Instrument) > 0 {
		// type-check against the overlay built so far (VRF stand-in etc.), then add the instrumented copies
		base := filepath.Join(workDir, "overlay-base.json")
		b, _ := json.Marshal(map[string]any{"Replace": ov})
		if err := os.WriteFile(base, b, 0o644); err != nil {
			return nil, "", err
		}
		gen, err := instrumentAll(h, workDir, base, env)
		if err != nil {
			return nil, "", fmt.Errorf("instrument: %w", err)
		}
		for k, v := range gen {
			ov[k] = v
		}
	}
	return ov, treeHash(), nil
}

// treeHash identifies the repo source state a run was made against.
func treeHash() string {
	d := sha256.New()
	rev, _ := exec.Command("git", "-C", repoDir, "rev-parse", "HEAD").Output()
	d.Write(rev)
	diff, _ := exec.Command("git", "-C", repoDir, "diff", "HEAD", "--", "*.go").Output()
	d.Write(diff)
	unt, _ := exec.Command("git", "-C", repoDir, "ls-files", "--others", "--exclude-standard", "--", "*.go").Output()
	names := strings.Fields(string(unt))
	sort.Strings(names)
	for _, n := range names {
		b, _ := os.ReadFile(filepath.Join(repoDir, n))
		d.Write([]byte(n))
		d.Write(b)
	}
	return hex.EncodeToString(d.Sum(nil))[:16]
}
