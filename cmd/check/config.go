package main

import (
	"crypto/sha256"
	"encoding/hex"
	"encoding/json"
	"fmt"
	"os"
	"os/exec"
	"path/filepath"
	"sort"
	"strings"
	"verif/instrument"
)

// Harness describes one simulator test binary built inside the repo module through an overlay.
type Harness struct {
	PkgDir     string            // repo-relative package directory the test binary is built from
	TestName   string            // Test function that calls sim.WorkerMain
	Files      map[string]string // repo-relative target path -> /verif-relative source file
	Instrument []InstrSpec       // repo files replaced by instrumented copies (regenerated every build)
	Race       bool
	GoMaxProcs int
	MemLimitMB int
}

// Check binds a property to a harness and its budgets.
type Check struct {
	Property     string
	Harness      string
	Level        string
	Quick        tierCfg
	Thorough     tierCfg
	MaxWorkers   int
	RunTimeoutS  float64
	Params       map[string]string
	Rule         string
	Real, Stub   []string
	Assumptions  []string
	ExpectProbes []string
	LevelText    string
	LevelNote    string
	Technique    string
	DesignRef    string
}

func findCheck(id string) *Check {
	for i := range checks {
		if checks[i].Property == id {
			return &checks[i]
		}
	}
	return nil
}

const zz = "internal/zzverif/"

var vrfStub = "pkg/Rust-VRF/vrf-func-ffi/src/vrf.go (pure-Go deterministic stand-in injected by overlay; no cryptographic security)"

var harnesses = map[string]*Harness{
	"h1tel": {
		PkgDir:   "internal/telemetry",
		TestName: "TestVerifH1",
		Files: map[string]string{
			"internal/telemetry/zz_verif_h1_test.go": "harness/h1tel/zz_verif_h1_test.go",
		},
		Instrument: []InstrSpec{
			{File: "internal/telemetry/tcp.go", Opt: instrument.Options{Yield: true, MinLock: 6, MinSelect: 4, MinGo: 3}},
			{File: "internal/telemetry/writer.go", Opt: instrument.Options{Yield: true, MinSelect: 1}},
			{File: "internal/telemetry/sequencer.go", Opt: instrument.Options{Yield: true, MinLock: 4}},
		},
		GoMaxProcs: 2,
	},
	"h5cache": {
		PkgDir:   zz + "h5cache",
		TestName: "TestVerifH5Cache",
		Files: map[string]string{
			zz + "h5cache/h5cache_test.go": "harness/h5cache/h5cache_test.go",
		},
		GoMaxProcs: 2,
	},
	"h5db": {
		PkgDir:   zz + "h5db",
		TestName: "TestVerifH5DB",
		Files: map[string]string{
			zz + "h5db/h5db_test.go": "harness/h5db/h5db_test.go",
		},
		GoMaxProcs: 2,
	},
}

var checks = []Check{
	{
		Property: "C16", Harness: "h5cache", Level: "exploration",
		Quick:        tierCfg{budget: 40, shrink: 400},
		Thorough:     tierCfg{budget: 900, shrink: 3000},
		Rule:         "one evaluation = one history (<= 80 quick / 200 thorough steps) over an evolving entry set on one live ChainState: add / remove / change value keeping length / flip embedded<->hashed / re-insert removed key / clear cache / reset instance / change capacity / compute root (cached vs uncached, sometimes in permuted order); keys share long bit prefixes; capacity knob in {1,2,3,7,64,600}; non-trivial = >= 3 root computations over a pool of >= 3 keys; distinct = decision tape hash",
		Real:         []string{"internal/blockchain.ChainState.ComputeStateRootWithCache / ClearKeyLevelCache / ResetInstance, KeyLevelCache", "internal/utilities/merklization (cached and uncached walks)"},
		Stub:         []string{vrfStub + " (only so that the package compiles; not executed)"},
		Assumptions:  []string{"oracle = the repository's own uncached root for the same entries (the property is an equivalence); an independent bit-level reference trie is also evaluated and its disagreements are counted as a by-product (C15 is not claimed)"},
		LevelText:    "seeded exploration of computation histories with the cache capacity as a randomised knob, explicit clears and instance resets as faults; evidence, not proof",
		LevelNote:    "types.MaxKeyLevelCacheSize is a package variable and is varied by the harness; entries <= ~50 per history",
		Technique:    "deterministic simulation: seeded operation histories on a long-lived component with randomised tuning knob, differential oracle (cached vs from-scratch), tape shrinking + fresh-process replay",
		DesignRef:    "DESIGN.md §4 H5, §5 C16",
		ExpectProbes: []string{"probe:value_changed_same_length", "probe:embedded_hashed_flip", "probe:key_reinserted", "fault:cache_cleared", "fault:instance_reset", "probe:capacity_exceeded_during_walk"},
	},
	{
		Property: "C28", Harness: "h1tel", Level: "exploration",
		Quick:        tierCfg{budget: 60, shrink: 300},
		Thorough:     tierCfg{budget: 1200, shrink: 3000},
		RunTimeoutS:  120,
		Rule:         "one evaluation = one simulated life of the real telemetry client: 1-6 emitter goroutines x 1-40 emit calls (4 flavours, follow-ups with fresh/stale/invalid parents), optional early Close, tape-chosen schedule (one goroutine released at a time at instrumented seams), simulated clock, dialer and connection faults; non-trivial = at least one connection delivered at least one event and >= 4 emit calls were made; distinct = distinct hash of (decision tape, connections, delivered events, steps)",
		Real:         []string{"internal/telemetry tcpClient: Emit, EmitLazy, EmitFollowup(Lazy), Close, connectLoop, reader goroutine, writeLoop, flushReadyDrops, sequencer, dropState, frame encoders (tcp.go/writer.go/sequencer.go run as AST-instrumented copies of the current tree: yield/lock/go/select seams only)"},
		Stub:         []string{"net.Conn and dialer = in-memory simulated connection (harness)", "clock = testing/synctest fake clock", "goroutine scheduling = harness scheduler (park/release at seams)"},
		Assumptions:  []string{"two Close calls are issued sequentially, never concurrently (sync.Once's internal mutex is outside the scheduler)", "the instrumenter inserts scheduling points only at synchronisation operations (mutex, atomics, channel ops, select, go, WaitGroup.Wait, connection calls); plain memory accesses between them execute atomically", "receiver oracle is harness code written from the property text"},
		LevelText:    "seeded exploration of schedules x clock x connection/dial fault sequences of the real client under a deterministic scheduler, validated by a receiver model (alignment of receiver-assigned ids with returned ids, frame well-formedness, follow-up parents, no phantom/duplicate, emitters never durably blocked); evidence, not proof",
		LevelNote:    "trusted: the AST instrumenter preserves behaviour (seams are no-ops when detached), testing/synctest's fake clock, the harness' connection model; plain (non-synchronising) memory accesses are not preemption points",
		Technique:    "deterministic simulation: seeded scheduler over real goroutines (synctest bubble + park/release seams), simulated clock/transport with fault injection, receiver-model oracle, tape shrinking + fresh-process replay",
		DesignRef:    "DESIGN.md §3.3, §3.4, §4 H1, Appendix B",
		ExpectProbes: []string{"fault:short_write", "fault:write_error_torn", "fault:write_stall", "fault:dial_error", "fault:dial_hang", "fault:dial_slow", "fault:peer_close", "probe:dropped_record_on_wire", "probe:dropped_range_coalesced", "probe:followup_delivered", "probe:lock_contended", "probe:events_on_two_or_more_connections", "probe:close_during_stalled_write", "probe:dial_cancelled_by_close", "probe:epoch_exhausted_degrade", "probe:trailing_partial_frame"},
	},
	{
		Property: "C27", Harness: "h5db", Level: "exploration",
		Quick:    tierCfg{budget: 40, shrink: 400},
		Thorough: tierCfg{budget: 900, shrink: 3000},
		Rule:     "one evaluation = one tape-generated operation history (puts, deletes, gets, batches committed/discarded/abandoned, iterators with prefix/start pairs, caller-buffer scribbling after every call) replayed against the three real providers and a sorted-map model; non-trivial = the history contained at least one iterator and one batch commit and >= 8 operations; distinct = distinct hash of (operation sequence incl. arguments)",
		Real:     []string{"internal/database/provider/memory", "internal/database/provider/pebble (real Pebble engine on its in-memory vfs)", "internal/database/provider/redis (real go-redis client)"},
		Stub:     []string{"Redis server = alicebob/miniredis on a loopback socket (the repo's own test dependency)", "Pebble file system = vfs.NewMem"},
		Assumptions: []string{"sequential histories only: Pebble's and go-redis' internal goroutines are outside the simulator, so no concurrent arm and no I/O-error injection (the property promises nothing under I/O errors)",
			"miniredis returns SCAN results sorted, so an unsorted real Redis reply cannot be observed here"},
		LevelText:    "seeded exploration of operation histories (<= 40 operations, keys over a small alphabet with glob metacharacters, empty keys/values) on the three real providers against a sorted-map reference model, with every argument buffer overwritten after each call and returned slices either scribbled or held and re-checked at the end; evidence, not proof",
		LevelNote:    "Redis server is the miniredis stand-in (keys restricted to bytes it can translate; backslash/0x80/0xff only in the memory+Pebble arm), Pebble runs on MemFS; sequential histories only, no I/O-error injection",
		Technique:    "deterministic simulation: seeded operation/fault histories vs reference model (differential over 3 providers), tape shrinking + fresh-process replay",
		DesignRef:    "DESIGN.md §4 H5, §5 C27",
		ExpectProbes: []string{"probe:iter_start_not_prefix", "probe:batch_commit", "probe:batch_discard", "probe:glob_meta_key", "probe:empty_key", "probe:empty_value", "fault:scribble_args", "fault:scribble_result"},
	},
}

// makeOverlay writes instrumented files into workDir and returns the overlay Replace map.
func makeOverlay(h *Harness, workDir string, env []string) (map[string]string, string, error) {
	ov := map[string]string{}
	ov[filepath.Join(repoDir, "pkg/Rust-VRF/vrf-func-ffi/src/vrf.go")] = filepath.Join(verifDir, "overlay/vrf/vrf.go")
	simFiles, err := filepath.Glob(filepath.Join(verifDir, "sim", "*.go"))
	if err != nil {
		return nil, "", err
	}
	for _, f := range simFiles {
		if strings.HasSuffix(f, "_test.go") {
			continue
		}
		ov[filepath.Join(repoDir, zz+"sim", filepath.Base(f))] = f
	}
	for dst, src := range h.Files {
		p := filepath.Join(verifDir, src)
		if _, err := os.Stat(p); err != nil {
			return nil, "", fmt.Errorf("harness file missing: %s", p)
		}
		ov[filepath.Join(repoDir, dst)] = p
	}
	simrtFiles, _ := filepath.Glob(filepath.Join(verifDir, "simrt", "*.go"))
	for _, f := range simrtFiles {
		ov[filepath.Join(repoDir, zz+"simrt", filepath.Base(f))] = f
	}
	if len(h.Instrument) > 0 {
		// type-check against the overlay built so far (VRF stand-in etc.), then add the instrumented copies
		base := filepath.Join(workDir, "overlay-base.json")
		b, _ := json.Marshal(map[string]any{"Replace": ov})
		if err := os.WriteFile(base, b, 0o644); err != nil {
			return nil, "", err
		}
		gen, err := instrumentAll(h, workDir, base, env)
		if err != nil {
			return nil, "", fmt.Errorf("instrument: %w", err)
		}
		for k, v := range gen {
			ov[k] = v
		}
	}
	return ov, treeHash(), nil
}

// treeHash identifies the repo source state a run was made against.
func treeHash() string {
	d := sha256.New()
	rev, _ := exec.Command("git", "-C", repoDir, "rev-parse", "HEAD").Output()
	d.Write(rev)
	diff, _ := exec.Command("git", "-C", repoDir, "diff", "HEAD", "--", "*.go").Output()
	d.Write(diff)
	unt, _ := exec.Command("git", "-C", repoDir, "ls-files", "--others", "--exclude-standard", "--", "*.go").Output()
	names := strings.Fields(string(unt))
	sort.Strings(names)
	for _, n := range names {
		b, _ := os.ReadFile(filepath.Join(repoDir, n))
		d.Write([]byte(n))
		d.Write(b)
	}
	return hex.EncodeToString(d.Sum(nil))[:16]
}
