package sim

import "runtime"

func runtimeStack(buf []byte) int { return runtime.Stack(buf, true) }

// Shrink minimises a failing tape. test(c) must return the *Run of a
// re-execution that still shows the same violation class, or nil.
// It returns the smallest tape found, attempts, accepted steps and the Run of
// the last accepted candidate (nil if none was accepted).
//
// Passes (repeated until a fixpoint or the budget is spent):
//  1. truncate the tail (missing values read as 0);
//  2. delete chunks (sizes n/2 … 1) – removes whole operations;
//  3. zero chunks, then single values – "simplest choice";
//  4. halve / decrement single values.
func Shrink(orig []uint32, budget int, test func([]uint32) *Run) (best []uint32, tried, accepted int, last *Run) {
	best = append([]uint32(nil), orig...)
	if budget <= 0 {
		return best, 0, 0, nil
	}
	try := func(c []uint32) bool {
		if tried >= budget {
			return false
		}
		tried++
		if r := test(c); r != nil {
			// normalise: the replay tape may have been rewritten (mod n) and
			// extended; keep only what was consumed.
			u := r.T.Used()
			if len(u) <= len(c) || len(u) <= len(best) {
				best = u
			} else {
				best = append([]uint32(nil), c...)
			}
			accepted++
			last = r
			return true
		}
		return false
	}
	// normalise first (also proves the failure reproduces from its own tape)
	if !try(best) {
		return append([]uint32(nil), orig...), tried, accepted, nil
	}
	for pass := 0; pass < 6 && tried < budget; pass++ {
		before := accepted
		// 1. truncate
		for lo, hi := 0, len(best); lo < hi && tried < budget; {
			mid := (lo + hi) / 2
			if try(append([]uint32(nil), best[:mid]...)) {
				hi = len(best)
				if hi > mid {
					hi = mid
				}
			} else {
				lo = mid + 1
			}
		}
		// strip trailing zeros (free: zeros are what an exhausted tape yields)
		for len(best) > 0 && best[len(best)-1] == 0 {
			best = best[:len(best)-1]
		}
		// 2. delete chunks
		for size := len(best) / 2; size >= 1 && tried < budget; size /= 2 {
			for i := 0; i+size <= len(best) && tried < budget; {
				c := append(append([]uint32(nil), best[:i]...), best[i+size:]...)
				if !try(c) {
					i += size
				}
			}
		}
		// 3. zero chunks / values
		for size := 8; size >= 1 && tried < budget; size /= 2 {
			for i := 0; i+size <= len(best) && tried < budget; i += size {
				allZero := true
				for _, v := range best[i : i+size] {
					if v != 0 {
						allZero = false
					}
				}
				if allZero {
					continue
				}
				c := append([]uint32(nil), best...)
				for j := i; j < i+size; j++ {
					c[j] = 0
				}
				try(c)
			}
		}
		// 4. reduce values
		for i := 0; i < len(best) && tried < budget; i++ {
			for i < len(best) && best[i] > 0 && tried < budget {
				c := append([]uint32(nil), best...)
				c[i] = best[i] / 2
				if try(c) {
					continue
				}
				if best[i] <= 1 {
					break
				}
				c = append([]uint32(nil), best...)
				c[i] = best[i] - 1
				if !try(c) {
					break
				}
			}
		}
		if accepted == before {
			break
		}
	}
	return best, tried, accepted, last
}
