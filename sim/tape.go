// Package sim is the simulator core shared by every harness: the choice tape
// (one integer decides everything), the tape shrinker, the worker loop that a
// harness test binary runs, and the result/replay file formats.
//
// It uses the standard library only. It is compiled twice: as package
// "verif/sim" for the orchestrator (/verif/cmd/check) and – through
// `go test -overlay` – as
// github.com/New-JAMneration/JAM-Protocol/internal/zzverif/sim inside the
// repository module, so that in-package harness tests can import it.
package sim

import (
	"fmt"
	"hash/fnv"
)

// Tape is the single source of every decision in a simulated run.
//
// Explore mode: values come from a splitmix64 stream seeded with (seed, run)
// and are recorded. Replay mode: values come from Vals (taken modulo the
// requested bound; 0 once the tape is exhausted) – this is what the shrinker
// and replay files use.
type Tape struct {
	Vals   []uint32
	pos    int
	replay bool
	state  uint64
	// Labels is kept for humans only (never read by harness logic).
	Labels    []string
	keepLabel bool
	// hash of the (label-free) decision sequence: a cheap "distinct run" id.
	dh uint64
}

func mix(x uint64) uint64 {
	x += 0x9e3779b97f4a7c15
	z := x
	z = (z ^ (z >> 30)) * 0xbf58476d1ce4e5b9
	z = (z ^ (z >> 27)) * 0x94d049bb133111eb
	return z ^ (z >> 31)
}

// NewTape creates an exploring tape for (seed, run).
func NewTape(seed int64, run int64) *Tape {
	s := mix(uint64(seed)) ^ mix(uint64(run)*0x9e3779b97f4a7c15+0x1234567)
	return &Tape{state: s, dh: 1469598103934665603}
}

// ReplayTape creates a replaying tape.
func ReplayTape(vals []uint32) *Tape {
	return &Tape{Vals: append([]uint32(nil), vals...), replay: true, dh: 1469598103934665603}
}

// KeepLabels turns on label recording (replay/debug only).
func (t *Tape) KeepLabels() { t.keepLabel = true }

func (t *Tape) next() uint64 {
	t.state += 0x9e3779b97f4a7c15
	z := t.state
	z = (z ^ (z >> 30)) * 0xbf58476d1ce4e5b9
	z = (z ^ (z >> 27)) * 0x94d049bb133111eb
	return z ^ (z >> 31)
}

// Choose returns a value in [0,n). n<=1 consumes nothing and returns 0.
func (t *Tape) Choose(n int, label string) int {
	if n <= 1 {
		return 0
	}
	var v uint32
	if t.replay {
		if t.pos < len(t.Vals) {
			v = t.Vals[t.pos] % uint32(n)
		}
		// keep the recorded tape normalised so shrinking sees real values
		if t.pos < len(t.Vals) {
			t.Vals[t.pos] = v
		} else {
			t.Vals = append(t.Vals, 0)
		}
	} else {
		v = uint32(t.next() % uint64(n))
		t.Vals = append(t.Vals, v)
	}
	t.pos++
	t.dh = (t.dh ^ uint64(v) ^ uint64(n)<<32) * 1099511628211
	if t.keepLabel {
		t.Labels = append(t.Labels, fmt.Sprintf("%s=%d/%d", label, v, n))
	}
	return int(v)
}

// Bool is Choose(2)==1.
func (t *Tape) Bool(label string) bool { return t.Choose(2, label) == 1 }

// Prob returns true with probability num/den.
func (t *Tape) Prob(num, den int, label string) bool {
	if num <= 0 {
		return false
	}
	if num >= den {
		return true
	}
	// value 0..num-1 => true; shrinks toward... keep "false" as the zero so
	// that shrinking removes faults rather than adding them.
	return t.Choose(den, label) >= den-num
}

// Range returns a value in [lo,hi] inclusive.
func (t *Tape) Range(lo, hi int, label string) int {
	if hi <= lo {
		return lo
	}
	return lo + t.Choose(hi-lo+1, label)
}

// Pick chooses an index according to integer weights (zero weights allowed).
func (t *Tape) Pick(weights []int, label string) int {
	tot := 0
	for _, w := range weights {
		tot += w
	}
	if tot <= 0 {
		return 0
	}
	v := t.Choose(tot, label)
	for i, w := range weights {
		if v < w {
			return i
		}
		v -= w
	}
	return len(weights) - 1
}

// Bytes returns n tape-chosen bytes.
func (t *Tape) Bytes(n int, label string) []byte {
	b := make([]byte, n)
	for i := range b {
		b[i] = byte(t.Choose(256, label))
	}
	return b
}

// U64 returns a tape-chosen 64-bit value (two draws).
func (t *Tape) U64(label string) uint64 {
	hi := uint64(t.Choose(1<<30, label))
	mid := uint64(t.Choose(1<<30, label))
	lo := uint64(t.Choose(16, label))
	return hi<<34 | mid<<4 | lo
}

// Perm returns a tape-chosen permutation of 0..n-1 (identity when the tape is zero).
func (t *Tape) Perm(n int, label string) []int {
	p := make([]int, n)
	for i := range p {
		p[i] = i
	}
	for i := 0; i < n-1; i++ {
		j := i + t.Choose(n-i, label)
		p[i], p[j] = p[j], p[i]
	}
	return p
}

// Used returns the recorded prefix actually consumed so far.
func (t *Tape) Used() []uint32 {
	n := t.pos
	if n > len(t.Vals) {
		n = len(t.Vals)
	}
	return append([]uint32(nil), t.Vals[:n]...)
}

// Pos is the number of decisions drawn.
func (t *Tape) Pos() int { return t.pos }

// DecisionHash identifies the decision sequence of this run.
func (t *Tape) DecisionHash() uint64 { return t.dh }

// HashString is a helper for abstract-state / signature hashing.
func HashString(s string) uint64 {
	h := fnv.New64a()
	h.Write([]byte(s))
	return h.Sum64()
}
