package sim

import (
	"encoding/json"
	"fmt"
	"os"
	"runtime/debug"
	"sort"
	"strings"
	"sync/atomic"
	"time"
)

// Spec is what the orchestrator hands to one worker process (JSON in the
// file named by $VERIF_SPEC).
type Spec struct {
	Property     string            `json:"property"`
	Harness      string            `json:"harness"`
	Tier         string            `json:"tier"`
	Seed         int64             `json:"seed"`
	Worker       int64             `json:"worker"`  // this worker's index
	Workers      int64             `json:"workers"` // stride
	MaxRuns      int64             `json:"max_runs"`
	DeadlineSec  float64           `json:"deadline_sec"`
	RunTimeoutS  float64           `json:"run_timeout_s"`
	ShrinkBudget int               `json:"shrink_budget"`
	MaxViol      int               `json:"max_violations"`
	Replay       *Replay           `json:"replay,omitempty"`
	OutPath      string            `json:"out_path"`
	Params       map[string]string `json:"params,omitempty"`
	DumpLog      bool              `json:"dump_log,omitempty"`
	KnownSigs    []string          `json:"known_signatures,omitempty"` // "<prop>|<signature>" of recorded findings
	Trace        bool              `json:"trace,omitempty"`            // determinism self-test: hash the full event log of every run
}

// Violation is one reported property violation.
type Violation struct {
	Property  string   `json:"property"`
	Class     string   `json:"class"`     // violation class: shrinking preserves (property,class)
	Signature string   `json:"signature"` // specific identity: what the known-findings file matches
	Message   string   `json:"message"`
	Seed      int64    `json:"seed"`
	Run       int64    `json:"run"`
	Tape      []uint32 `json:"tape"`
	OrigLen   int      `json:"orig_tape_len"`
	ShrinkTry int      `json:"shrink_attempts"`
	ShrinkOK  int      `json:"shrink_accepted"`
	Log       []string `json:"event_log_tail,omitempty"`
	Harness   string   `json:"harness,omitempty"` // set by the orchestrator: which arm of the check found it
}

// Replay is the replay-file format.
type Replay struct {
	Property  string            `json:"property"`
	Harness   string            `json:"harness"`
	Tier      string            `json:"tier"`
	Seed      int64             `json:"seed"`
	Run       int64             `json:"run"`
	Params    map[string]string `json:"params,omitempty"`
	Tape      []uint32          `json:"tape"`
	Class     string            `json:"violation_class"`
	Signature string            `json:"signature"`
	Message   string            `json:"message"`
	Log       []string          `json:"event_log_tail,omitempty"`
	Labels    []string          `json:"tape_labels,omitempty"`
	RepoRev   string            `json:"repo_rev,omitempty"`
	TreeHash  string            `json:"repo_tree_hash,omitempty"`
}

// WorkerResult is what a worker writes to Spec.OutPath.
type WorkerResult struct {
	Runs        int64            `json:"runs"`
	Nontrivial  int64            `json:"nontrivial"`
	Discarded   int64            `json:"discarded"`
	Hashes      []uint64         `json:"hashes"` // distinct run-shape hashes of non-trivial runs (capped)
	HashesCap   bool             `json:"hashes_capped"`
	Stats       map[string]int64 `json:"stats"`
	SimNanos    int64            `json:"sim_nanos"`
	Violations  []Violation      `json:"violations"`
	Samples     []string         `json:"samples"`
	Infra       []string         `json:"infra_errors"`
	WallS       float64          `json:"wall_s"`
	ShrinkTried int              `json:"shrink_attempts"`
	ShrinkOK    int              `json:"shrink_accepted"`
	Reproduced  bool             `json:"reproduced"` // replay mode
	TraceHashes []string         `json:"trace_hashes,omitempty"`
}

// Run is the context of one simulated run handed to the harness.
type Run struct {
	T      *Tape
	Prop   string // property this check decides ("" = every property the harness serves)
	Tier   string
	Params map[string]string

	viol       []Violation
	stats      map[string]int64
	log        []string
	logAll     bool
	simNanos   int64
	shape      uint64
	nontrivial bool
	discard    bool
	summary    string
}

const logTail = 60

// Wants reports whether violations of prop are of interest in this run.
func (r *Run) Wants(prop string) bool { return r.Prop == "" || r.Prop == prop }

// Violate records a violation (kept only if the property is the one being checked).
func (r *Run) Violate(prop, class, signature, format string, a ...any) {
	if !r.Wants(prop) {
		return
	}
	msg := fmt.Sprintf(format, a...)
	r.Logf("VIOLATION %s %s: %s", prop, class, msg)
	r.viol = append(r.viol, Violation{Property: prop, Class: class, Signature: signature, Message: msg})
}

// Violated reports whether any violation has been recorded so far.
func (r *Run) Violated() bool { return len(r.viol) > 0 }

// Count adds to a named counter (fault fired, probe hit, …).
func (r *Run) Count(name string, n int64) {
	if r.stats == nil {
		r.stats = map[string]int64{}
	}
	r.stats[name] += n
}

// Logf appends to the event log (tail kept). Must never draw from the tape.
func (r *Run) Logf(format string, a ...any) {
	s := fmt.Sprintf(format, a...)
	if r.logAll {
		r.log = append(r.log, s)
		return
	}
	if len(r.log) >= 2*logTail {
		r.log = append(r.log[:0], r.log[logTail:]...)
	}
	r.log = append(r.log, s)
}

// Log returns the retained event log.
func (r *Run) Log() []string { return r.log }

// AddSimTime accounts simulated time covered by this run.
func (r *Run) AddSimTime(d time.Duration) { r.simNanos += int64(d) }

// Shape mixes a value into the run's shape hash (the "distinct" measure).
func (r *Run) Shape(v uint64) { r.shape = (r.shape ^ v) * 1099511628211 }

// ShapeStr mixes a string into the shape hash.
func (r *Run) ShapeStr(s string) { r.Shape(HashString(s)) }

// Nontrivial marks the run as non-trivial by the harness' stated rule.
func (r *Run) Nontrivial() { r.nontrivial = true }

// Discard marks the run as not usable (e.g. author bug): counted, never a violation.
func (r *Run) Discard(reason string) {
	r.discard = true
	r.Count("discard:"+reason, 1)
}

// Summary sets the one-line human summary used for evidence samples.
func (r *Run) Summary(format string, a ...any) { r.summary = fmt.Sprintf(format, a...) }

// HarnessFunc executes one run.
type HarnessFunc func(r *Run)

type infraPanic struct {
	val   any
	stack string
}

// exec runs the harness once on the given tape, converting panics into infra errors.
func exec(h HarnessFunc, spec *Spec, t *Tape, logAll bool) (r *Run, infra *infraPanic) {
	r = &Run{T: t, Prop: spec.Property, Tier: spec.Tier, Params: spec.Params, shape: 1469598103934665603, logAll: logAll}
	defer func() {
		if v := recover(); v != nil {
			infra = &infraPanic{val: v, stack: string(debug.Stack())}
		}
	}()
	h(r)
	return r, nil
}

var watchdogDeadline atomic.Int64 // unix nanos; 0 = disarmed
var watchdogInfo atomic.Value

func startWatchdog() {
	go func() {
		for {
			time.Sleep(500 * time.Millisecond)
			d := watchdogDeadline.Load()
			if d != 0 && time.Now().UnixNano() > d {
				info, _ := watchdogInfo.Load().(string)
				fmt.Fprintf(os.Stderr, "INFRA watchdog: run exceeded wall-clock limit: %s\n", info)
				buf := make([]byte, 1<<20)
				n := runtimeStack(buf)
				os.Stderr.Write(buf[:n])
				os.Exit(2)
			}
		}
	}()
}

func arm(spec *Spec, info string) {
	to := spec.RunTimeoutS
	if to <= 0 {
		to = 60
	}
	watchdogInfo.Store(info)
	watchdogDeadline.Store(time.Now().Add(time.Duration(to * float64(time.Second))).UnixNano())
}
func disarm() { watchdogDeadline.Store(0) }

// WorkerMain is called from the harness' Test function. It returns the
// process exit code semantics through the result file; the test itself only
// fails on infrastructure trouble.
func WorkerMain(h HarnessFunc) (ok bool, msg string) {
	path := os.Getenv("VERIF_SPEC")
	if path == "" {
		return true, "VERIF_SPEC not set: nothing to do"
	}
	raw, err := os.ReadFile(path)
	if err != nil {
		return false, "read spec: " + err.Error()
	}
	var spec Spec
	if err := json.Unmarshal(raw, &spec); err != nil {
		return false, "parse spec: " + err.Error()
	}
	startWatchdog()
	start := time.Now()
	res := &WorkerResult{Stats: map[string]int64{}}
	defer func() {
		res.WallS = time.Since(start).Seconds()
	}()
	write := func() error {
		res.WallS = time.Since(start).Seconds()
		b, _ := json.Marshal(res)
		return os.WriteFile(spec.OutPath, b, 0o644)
	}

	if spec.Replay != nil {
		t := ReplayTape(spec.Replay.Tape)
		t.KeepLabels()
		arm(&spec, "replay")
		r, infra := exec(h, &spec, t, true)
		disarm()
		if infra != nil {
			res.Infra = append(res.Infra, fmt.Sprintf("panic during replay: %v\n%s", infra.val, infra.stack))
			write()
			return false, "panic during replay"
		}
		res.Runs = 1
		for _, v := range r.viol {
			if v.Property == spec.Replay.Property && (spec.Replay.Class == "" || v.Class == spec.Replay.Class) &&
				(spec.Replay.Signature == "" || v.Signature == spec.Replay.Signature) {
				res.Reproduced = true
			}
			v.Tape = t.Used()
			v.Log = r.log
			res.Violations = append(res.Violations, v)
		}
		if spec.DumpLog {
			for _, l := range r.log {
				fmt.Println(l)
			}
			fmt.Println("labels:", strings.Join(t.Labels, " "))
		}
		mergeStats(res.Stats, r.stats)
		if err := write(); err != nil {
			return false, err.Error()
		}
		return true, ""
	}

	hashes := map[uint64]struct{}{}
	const hashCap = 400000
	deadline := start.Add(time.Duration(spec.DeadlineSec * float64(time.Second)))
	maxViol := spec.MaxViol
	if maxViol <= 0 {
		maxViol = 3
	}
	seenClass := map[string]bool{}
	known := map[string]bool{}
	for _, k := range spec.KnownSigs {
		known[k] = true
	}
	for k := int64(0); spec.MaxRuns <= 0 || k < spec.MaxRuns; k++ {
		if spec.DeadlineSec > 0 && time.Now().After(deadline) {
			break
		}
		run := spec.Worker + k*spec.Workers
		t := NewTape(spec.Seed, run)
		arm(&spec, fmt.Sprintf("seed=%d run=%d", spec.Seed, run))
		r, infra := exec(h, &spec, t, spec.Trace)
		disarm()
		if spec.Trace && infra == nil {
			hh := HashString(strings.Join(r.log, "\n"))
			for _, v := range t.Used() {
				hh = (hh ^ uint64(v)) * 1099511628211
			}
			st := make([]string, 0, len(r.stats))
			for k, v := range r.stats {
				st = append(st, fmt.Sprintf("%s=%d", k, v))
			}
			sort.Strings(st)
			hh ^= HashString(strings.Join(st, ","))
			res.TraceHashes = append(res.TraceHashes, fmt.Sprintf("run%d:%016x:log%d:tape%d:viol%d", run, hh, len(r.log), t.Pos(), len(r.viol)))
		}
		if infra != nil {
			res.Infra = append(res.Infra, fmt.Sprintf("panic in harness seed=%d run=%d: %v\n%s", spec.Seed, run, infra.val, infra.stack))
			write()
			return false, "panic in harness"
		}
		res.Runs++
		res.SimNanos += r.simNanos
		mergeStats(res.Stats, r.stats)
		if r.discard {
			res.Discarded++
			continue
		}
		if r.nontrivial {
			res.Nontrivial++
			if len(hashes) < hashCap {
				hashes[r.shape^t.DecisionHash()] = struct{}{}
			} else {
				res.HashesCap = true
			}
		}
		if len(res.Samples) < 3 && r.summary != "" && (r.nontrivial || k > 20) {
			res.Samples = append(res.Samples, fmt.Sprintf("seed=%d run=%d tape_len=%d: %s", spec.Seed, run, t.Pos(), r.summary))
		}
		if len(r.viol) > 0 {
			// prefer a violation that is neither a recorded finding nor already
			// reported by this worker, so a known finding cannot mask a new one
			pick := -1
			for i, cand := range r.viol {
				k := cand.Property + "|" + cand.Signature
				if !known[k] && !seenClass[k] {
					pick = i
					break
				}
			}
			if pick < 0 {
				for i, cand := range r.viol {
					if !seenClass[cand.Property+"|"+cand.Signature] {
						pick = i
						break
					}
				}
			}
			if pick < 0 {
				res.Stats["violations_duplicate_signature"]++
				continue
			}
			v := r.viol[pick]
			seenClass[v.Property+"|"+v.Signature] = true
			v.Seed, v.Run = spec.Seed, run
			orig := t.Used()
			v.OrigLen = len(orig)
			// minimise, keeping (property, class)
			min, tried, okc, lastRun := Shrink(orig, spec.ShrinkBudget, func(c []uint32) *Run {
				arm(&spec, fmt.Sprintf("shrink seed=%d run=%d", spec.Seed, run))
				rr, inf := exec(h, &spec, ReplayTape(c), false)
				disarm()
				if inf != nil {
					return nil
				}
				for _, vv := range rr.viol {
					if vv.Property == v.Property && vv.Class == v.Class && vv.Signature == v.Signature {
						return rr
					}
				}
				return nil
			})
			v.Tape, v.ShrinkTry, v.ShrinkOK = min, tried, okc
			res.ShrinkTried += tried
			res.ShrinkOK += okc
			if lastRun != nil {
				for _, vv := range lastRun.viol {
					if vv.Property == v.Property && vv.Class == v.Class && vv.Signature == v.Signature {
						v.Message = vv.Message
						break
					}
				}
				v.Log = tail(lastRun.log)
			} else {
				v.Log = tail(r.log)
			}
			res.Violations = append(res.Violations, v)
			if len(res.Violations) >= maxViol {
				break
			}
		}
	}
	for hsh := range hashes {
		res.Hashes = append(res.Hashes, hsh)
	}
	sort.Slice(res.Hashes, func(i, j int) bool { return res.Hashes[i] < res.Hashes[j] })
	if err := write(); err != nil {
		return false, err.Error()
	}
	return true, ""
}

func tail(l []string) []string {
	if len(l) > logTail {
		l = l[len(l)-logTail:]
	}
	return append([]string(nil), l...)
}

func mergeStats(dst, src map[string]int64) {
	for k, v := range src {
		dst[k] += v
	}
}
