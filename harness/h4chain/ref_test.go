//go:build verif

package h4chain_test

import (
	"bytes"
	"encoding/binary"
	"fmt"
	"reflect"
	"sort"

	"github.com/New-JAMneration/JAM-Protocol/internal/safrole"
	"github.com/New-JAMneration/JAM-Protocol/internal/service_account"
	"github.com/New-JAMneration/JAM-Protocol/internal/types"
	"github.com/New-JAMneration/JAM-Protocol/internal/utilities/merklization"
	"github.com/New-JAMneration/JAM-Protocol/internal/zzverif/sim"
	"golang.org/x/crypto/sha3"
)

// Reference models, written from the property texts / Gray Paper, evaluated on
// (prior state parsed from GetState(parent), block) -> expected component, and compared with the
// posterior state parsed from GetState(block). They use no repository logic except the state
// parser and hashing primitives.

func keccak(b ...[]byte) (o types.OpaqueHash) {
	d := sha3.NewLegacyKeccak256()
	for _, x := range b {
		d.Write(x)
	}
	copy(o[:], d.Sum(nil))
	return
}

// ---- C23 ------------------------------------------------------------------------------------

func refTicketIDs(ext types.TicketsExtrinsic) []types.TicketBody {
	// with the VRF stand-in a ring signature carries its output in its first 32 bytes
	out := make([]types.TicketBody, 0, len(ext))
	for _, e := range ext {
		var tb types.TicketBody
		copy(tb.ID[:], e.Signature[:32])
		tb.Attempt = e.Attempt
		out = append(out, tb)
	}
	return out
}

func refFallback(eta2 types.Entropy, kappa types.ValidatorsData) []types.BandersnatchPublic {
	keys := make([]types.BandersnatchPublic, types.EpochLength)
	for i := 0; i < types.EpochLength; i++ {
		var le [4]byte
		binary.LittleEndian.PutUint32(le[:], uint32(i))
		h := h256(eta2[:], le[:])
		idx := binary.LittleEndian.Uint32(h[:4]) % uint32(len(kappa))
		keys[i] = kappa[idx].Bandersnatch
	}
	return keys
}

func checkC23(r *sim.Run, b *chainBlock, prior, post *types.State) {
	e, m := epochOf(prior.Tau)
	e2, _ := epochOf(b.block.Header.Slot)
	base := prior.Gamma.GammaA
	if e2 > e {
		base = nil
	}
	all := append(append([]types.TicketBody(nil), base...), refTicketIDs(b.block.Extrinsic.Tickets)...)
	sort.Slice(all, func(i, j int) bool { return bytes.Compare(all[i].ID[:], all[j].ID[:]) < 0 })
	var want []types.TicketBody
	for i, x := range all {
		if i > 0 && x.ID == all[i-1].ID {
			continue
		}
		want = append(want, x)
	}
	if len(want) > types.EpochLength {
		want = want[:types.EpochLength]
	}
	got := post.Gamma.GammaA
	for i := 1; i < len(got); i++ {
		if bytes.Compare(got[i-1].ID[:], got[i].ID[:]) >= 0 {
			r.Violate("C23", "accumulator", "accumulator-not-strictly-increasing", "block depth %d slot %d: ticket accumulator is not strictly increasing at %d", b.depth, b.block.Header.Slot, i)
			return
		}
	}
	if len(got) > types.EpochLength {
		r.Violate("C23", "accumulator", "accumulator-longer-than-epoch", "block depth %d: accumulator has %d entries", b.depth, len(got))
		return
	}
	if len(got) != len(want) || (len(got) > 0 && !reflect.DeepEqual([]types.TicketBody(got), want)) {
		r.Violate("C23", "accumulator", "accumulator-not-lowest-ids", "block depth %d slot %d (epoch %d->%d, %d new tickets, %d carried): accumulator has %d entries %s, reference has %d %s", b.depth, b.block.Header.Slot, e, e2,
			len(b.block.Extrinsic.Tickets), len(base), len(got), ticketStr(got), len(want), ticketStr(want))
		return
	}
	if len(b.block.Extrinsic.Tickets) > 0 {
		r.Count("probe:tickets_accumulated", int64(len(b.block.Extrinsic.Tickets)))
	}
	if len(got) == types.EpochLength {
		r.Count("probe:accumulator_full", 1)
	}
	// sealer sequence
	var wantS types.TicketsOrKeys
	kind := ""
	switch {
	case e2 == e:
		wantS, kind = prior.Gamma.GammaS, "unchanged"
	case e2 == e+1 && int(m) >= types.SlotSubmissionEnd && len(prior.Gamma.GammaA) == types.EpochLength:
		wantS.Tickets, kind = outsideInRef(prior.Gamma.GammaA), "tickets"
		r.Count("probe:sealer_sequence_from_tickets", 1)
	default:
		kappa2 := prior.Gamma.GammaK // κ′ = γ_k on an epoch change
		wantS.Keys, kind = refFallback(prior.Eta[1], kappa2), "fallback"
		r.Count("probe:sealer_sequence_fallback_on_epoch_change", 1)
	}
	gs := post.Gamma.GammaS
	if !reflect.DeepEqual(normTK(gs), normTK(wantS)) {
		r.Violate("C23", "sealer-sequence", "sealer-sequence-"+kind+"-wrong", "block depth %d slot %d (epoch %d->%d, prior slot index %d, prior accumulator %d): slot-sealer sequence is not the %s sequence", b.depth, b.block.Header.Slot, e, e2, m, len(prior.Gamma.GammaA), kind)
	}
}

// refSealer is the slot-sealer sequence and the active validator set the property prescribes for a block at `slot`
// on top of `prior` (same rule as in checkC23, usable before the node has accepted the block).
func refSealer(prior *types.State, slot types.TimeSlot) (seq types.TicketsOrKeys, kappa types.ValidatorsData, kind string) {
	e, m := epochOf(prior.Tau)
	e2, _ := epochOf(slot)
	switch {
	case e2 == e:
		return prior.Gamma.GammaS, prior.Kappa, "unchanged"
	case e2 == e+1 && int(m) >= types.SlotSubmissionEnd && len(prior.Gamma.GammaA) == types.EpochLength:
		seq.Tickets = outsideInRef(prior.Gamma.GammaA)
		return seq, prior.Gamma.GammaK, "tickets"
	}
	seq.Keys = refFallback(prior.Eta[1], prior.Gamma.GammaK)
	return seq, prior.Gamma.GammaK, "fallback"
}

// sealedAsPrescribed: the block's author is the validator the prescribed sealer sequence names for its slot
// (fallback key of the slot, or the owner of the slot's ticket as recorded when the harness made the ticket).
func (ru *run) sealedAsPrescribed(prior *types.State, b *types.Block) (bool, string) {
	seq, kappa, kind := refSealer(prior, b.Header.Slot)
	idx := int(b.Header.Slot) % types.EpochLength
	if int(b.Header.AuthorIndex) >= len(kappa) {
		return false, kind
	}
	key := kappa[b.Header.AuthorIndex].Bandersnatch
	if len(seq.Tickets) == types.EpochLength {
		o, ok := ru.a.owners[seq.Tickets[idx].ID]
		return ok && validators[o.val].pub.Bandersnatch == key, kind
	}
	if len(seq.Keys) == types.EpochLength {
		return seq.Keys[idx] == key, kind
	}
	return false, kind
}

// fullSpecSealerProbe: the chain parameters are a configuration; histories run with the tiny set (an epoch of 12 slots,
// 6 validators), so the two sealer-sequence constructions are also evaluated once per run under the full set (600
// slots, 1023 validators) on synthetic inputs, against the same reference functions. Pure functions - they ride on the
// run as a by-product, like the historical lookup in C31.
func fullSpecSealerProbe(r *sim.Run) {
	t := r.T
	types.SetFullMode()
	defer types.SetTinyMode()
	var eta types.Entropy
	copy(eta[:], t.Bytes(4, "full_spec_entropy"))
	vals := make(types.ValidatorsData, types.ValidatorsCount)
	for i := range vals {
		h := h256([]byte{byte(i), byte(i >> 8), 0x5E}, eta[:2])
		copy(vals[i].Bandersnatch[:], h[:])
	}
	got := safrole.FallbackKeySequence(eta, vals)
	want := refFallback(eta, vals)
	if len(got) != len(want) {
		r.Violate("C23", "sealer-sequence", "full-spec-fallback-sequence-length", "full parameter set: the fallback sequence has %d keys, an epoch has %d slots", len(got), len(want))
		return
	}
	for i := range want {
		if got[i] != want[i] {
			r.Violate("C23", "sealer-sequence", "full-spec-fallback-sequence-wrong", "full parameter set (epoch of %d slots, %d validators): fallback sealer key of slot index %d is %x, the entropy-derived key is %x", types.EpochLength, types.ValidatorsCount, i, got[i][:4], want[i][:4])
			return
		}
	}
	acc := make(types.TicketsAccumulator, types.EpochLength)
	for i := range acc {
		acc[i].ID[0], acc[i].ID[1], acc[i].ID[2] = byte(i>>8), byte(i), 0x77
		acc[i].Attempt = types.TicketAttempt(i % 2)
	}
	gotZ := safrole.OutsideInSequencer(&acc)
	wantZ := outsideInRef(acc)
	if !reflect.DeepEqual([]types.TicketBody(gotZ), wantZ) {
		r.Violate("C23", "sealer-sequence", "full-spec-outside-in-sequence-wrong", "full parameter set: the outside-in ordering of a full accumulator of %d tickets differs from the reference", len(acc))
		return
	}
	r.Count("probe:sealer_sequences_evaluated_under_full_parameter_set", 1)
}

func normTK(t types.TicketsOrKeys) string {
	return fmt.Sprintf("T%v K%x", ticketStr(t.Tickets), t.Keys)
}

func ticketStr(t []types.TicketBody) string {
	s := ""
	for _, x := range t {
		s += fmt.Sprintf("%x/%d ", x.ID[:3], x.Attempt)
	}
	return "[" + s + "]"
}

func outsideInRef(a []types.TicketBody) []types.TicketBody {
	out := make([]types.TicketBody, 0, len(a))
	lo, hi := 0, len(a)-1
	for k := 0; lo <= hi; k++ {
		if k%2 == 0 {
			out = append(out, a[lo])
			lo++
		} else {
			out = append(out, a[hi])
			hi--
		}
	}
	return out
}

// ---- C25 ------------------------------------------------------------------------------------

// mmrAppend is the Gray Paper append function A (E.8) with Keccak.
func mmrAppend(peaks []*types.OpaqueHash, l types.OpaqueHash) []*types.OpaqueHash {
	out := append([]*types.OpaqueHash(nil), peaks...)
	cur := l
	for n := 0; ; n++ {
		if n >= len(out) {
			c := cur
			return append(out, &c)
		}
		if out[n] == nil {
			c := cur
			out[n] = &c
			return out
		}
		cur = keccak(out[n][:], cur[:])
		out[n] = nil
	}
}

// mmrSuperPeak is M_R (E.10).
func mmrSuperPeak(peaks []*types.OpaqueHash) types.OpaqueHash {
	var h []types.OpaqueHash
	for _, p := range peaks {
		if p != nil {
			h = append(h, *p)
		}
	}
	var rec func(h []types.OpaqueHash) types.OpaqueHash
	rec = func(h []types.OpaqueHash) types.OpaqueHash {
		switch len(h) {
		case 0:
			return types.OpaqueHash{}
		case 1:
			return h[0]
		}
		rest := rec(h[:len(h)-1])
		return keccak([]byte("peak"), rest[:], h[len(h)-1][:])
	}
	return rec(h)
}

// merkleNode is N (E.1) and wellBalanced is M_B (E.1) with Keccak.
func merkleNode(v [][]byte) []byte {
	switch len(v) {
	case 0:
		return make([]byte, 32)
	case 1:
		return v[0]
	}
	mid := (len(v) + 1) / 2
	h := keccak([]byte("node"), merkleNode(v[:mid]), merkleNode(v[mid:]))
	return h[:]
}

func wellBalanced(v [][]byte) types.OpaqueHash {
	if len(v) == 1 {
		return keccak(v[0])
	}
	var o types.OpaqueHash
	copy(o[:], merkleNode(v))
	return o
}

func checkC25(r *sim.Run, b *chainBlock, prior, post *types.State) {
	hist := append(types.BlocksHistory(nil), prior.Beta.History...)
	want := make(types.BlocksHistory, len(hist))
	copy(want, hist)
	if len(want) > 0 {
		want[len(want)-1].StateRoot = b.block.Header.ParentStateRoot
	}
	// accumulation outputs of this block: θ′, encoded as E_4(s) ‖ h, ordered by service
	var leaves [][]byte
	for _, o := range post.Theta {
		var le [4]byte
		binary.LittleEndian.PutUint32(le[:], uint32(o.ServiceID))
		leaves = append(leaves, append(le[:], o.Hash[:]...))
	}
	var priorPeaks []*types.OpaqueHash
	for _, p := range prior.Beta.Mmr.Peaks {
		priorPeaks = append(priorPeaks, (*types.OpaqueHash)(p))
	}
	peaks := mmrAppend(priorPeaks, wellBalanced(leaves))
	if len(b.block.Extrinsic.Guarantees) > 0 {
		r.Count("probe:block_with_reported_packages", 1)
	}
	if len(post.Theta) >= 2 {
		r.Count("probe:block_with_two_or_more_accumulation_outputs", 1)
	}
	var reported []types.ReportedWorkPackage
	for _, g := range b.block.Extrinsic.Guarantees {
		reported = append(reported, types.ReportedWorkPackage{Hash: types.WorkReportHash(g.Report.PackageSpec.Hash), ExportsRoot: g.Report.PackageSpec.ExportsRoot})
	}
	sort.Slice(reported, func(i, j int) bool { return bytes.Compare(reported[i].Hash[:], reported[j].Hash[:]) < 0 })
	want = append(want, types.BlockInfo{HeaderHash: b.hash, BeefyRoot: mmrSuperPeak(peaks), Reported: reported})
	if len(want) > types.MaxBlocksHistory {
		want = want[len(want)-types.MaxBlocksHistory:]
		r.Count("probe:history_full_oldest_dropped", 1)
	}
	got := post.Beta.History
	if len(got) > types.MaxBlocksHistory {
		r.Violate("C25", "history", "history-longer-than-H", "block depth %d: recent history holds %d entries", b.depth, len(got))
		return
	}
	if len(got) != len(want) {
		r.Violate("C25", "history", "history-length-wrong", "block depth %d: recent history holds %d entries, reference %d", b.depth, len(got), len(want))
		return
	}
	for i := range want {
		g, w := got[i], want[i]
		what := ""
		switch {
		case g.HeaderHash != w.HeaderHash:
			what = "header-hash"
		case g.StateRoot != w.StateRoot:
			what = "state-root"
		case g.BeefyRoot != w.BeefyRoot:
			what = "accumulation-commitment"
		case len(g.Reported) != len(w.Reported) || (len(g.Reported) > 0 && !reflect.DeepEqual(g.Reported, w.Reported)):
			what = "reported-packages"
		}
		if what != "" {
			pos := "older-entry"
			if i == len(want)-1 {
				pos = "new-entry"
			} else if i == len(want)-2 {
				pos = "previous-newest-entry"
			}
			r.Violate("C25", "history", "history-"+pos+"-"+what, "block depth %d slot %d: recent-history entry %d/%d: %s is %x…, reference %x…", b.depth, b.block.Header.Slot, i, len(want), what,
				pickField(g, what), pickField(w, what))
			return
		}
	}
	var gotPeaks []*types.OpaqueHash
	for _, p := range post.Beta.Mmr.Peaks {
		gotPeaks = append(gotPeaks, (*types.OpaqueHash)(p))
	}
	if !peaksEqual(gotPeaks, peaks) {
		r.Violate("C25", "mmr", "mmr-peaks-wrong", "block depth %d: accumulation-output mountain range peaks differ from the reference append", b.depth)
	}
	if len(prior.Beta.History) >= types.MaxBlocksHistory {
		r.Count("probe:history_at_capacity", 1)
	}
}

func pickField(b types.BlockInfo, what string) []byte {
	switch what {
	case "header-hash":
		return b.HeaderHash[:6]
	case "state-root":
		return b.StateRoot[:6]
	case "accumulation-commitment":
		return b.BeefyRoot[:6]
	}
	return []byte{byte(len(b.Reported))}
}

func peaksEqual(a, b []*types.OpaqueHash) bool {
	// trailing nils are not significant
	for len(a) > 0 && a[len(a)-1] == nil {
		a = a[:len(a)-1]
	}
	for len(b) > 0 && b[len(b)-1] == nil {
		b = b[:len(b)-1]
	}
	if len(a) != len(b) {
		return false
	}
	for i := range a {
		if (a[i] == nil) != (b[i] == nil) || (a[i] != nil && *a[i] != *b[i]) {
			return false
		}
	}
	return true
}

// ---- C34 (validator records; service "provided" part; core records when no work is reported) --

func checkC34(r *sim.Run, b *chainBlock, prior, post *types.State) {
	e, _ := epochOf(prior.Tau)
	e2, _ := epochOf(b.block.Header.Slot)
	curr := append(types.ValidatorsStatistics(nil), prior.Pi.ValsCurr...)
	last := append(types.ValidatorsStatistics(nil), prior.Pi.ValsLast...)
	if e2 > e {
		last = curr
		curr = make(types.ValidatorsStatistics, types.ValidatorsCount)
		r.Count("probe:statistics_epoch_rollover", 1)
	}
	ai := int(b.block.Header.AuthorIndex)
	ext := b.block.Extrinsic
	if ai < len(curr) {
		curr[ai].Blocks++
		curr[ai].Tickets += types.U32(len(ext.Tickets))
		curr[ai].PreImages += types.U32(len(ext.Preimages))
		for _, p := range ext.Preimages {
			curr[ai].PreImagesSize += types.U32(len(p.Blob))
		}
	}
	for _, a := range ext.Assurances {
		if int(a.ValidatorIndex) < len(curr) {
			curr[a.ValidatorIndex].Assurances++
		}
	}
	reporters := refGuarantorKeys(b, prior, post)
	for idx, v := range post.Kappa {
		if idx < len(curr) && reporters[v.Ed25519] {
			curr[idx].Guarantees++
			r.Count("probe:guarantor_credited", 1)
		}
	}
	if !reflect.DeepEqual(normVS(post.Pi.ValsCurr), normVS(curr)) {
		r.Violate("C34", "validators", "validator-current-records-wrong", "block depth %d slot %d author %d (tickets %d, preimages %d): current validator records %v, reference %v", b.depth, b.block.Header.Slot, ai, len(ext.Tickets), len(ext.Preimages), post.Pi.ValsCurr, curr)
		return
	}
	if !reflect.DeepEqual(normVS(post.Pi.ValsLast), normVS(last)) {
		r.Violate("C34", "validators", "validator-previous-records-wrong", "block depth %d slot %d (epoch %d->%d): previous-epoch validator records %v, reference %v", b.depth, b.block.Header.Slot, e, e2, post.Pi.ValsLast, last)
		return
	}
	checkC34CoresServicesB(r, b, prior, post)
}

func normVS(v types.ValidatorsStatistics) string {
	return fmt.Sprint([]types.ValidatorActivityRecord(v))
}

// ---- C35 ------------------------------------------------------------------------------------

func sortedHashes(h []types.WorkReportHash) bool {
	for i := 1; i < len(h); i++ {
		if bytes.Compare(h[i-1][:], h[i][:]) >= 0 {
			return false
		}
	}
	return true
}

func checkC35(r *sim.Run, b *chainBlock, prior, post *types.State) {
	d := b.block.Extrinsic.Disputes
	good := map[types.WorkReportHash]bool{}
	bad := map[types.WorkReportHash]bool{}
	wonky := map[types.WorkReportHash]bool{}
	for _, h := range prior.Psi.Good {
		good[h] = true
	}
	for _, h := range prior.Psi.Bad {
		bad[h] = true
	}
	for _, h := range prior.Psi.Wonky {
		wonky[h] = true
	}
	for _, v := range d.Verdicts {
		pos := 0
		for _, j := range v.Votes {
			if j.Vote {
				pos++
			}
		}
		switch pos {
		case types.ValidatorsCount*2/3 + 1:
			good[v.Target] = true
			r.Count("probe:verdict_good", 1)
		case 0:
			bad[v.Target] = true
			r.Count("probe:verdict_bad", 1)
		case types.ValidatorsCount / 3:
			wonky[v.Target] = true
			r.Count("probe:verdict_wonky", 1)
		default:
			r.Violate("C35", "vote-count", "verdict-with-other-vote-count-accepted", "block depth %d was accepted with a verdict of %d positive votes", b.depth, pos)
			return
		}
	}
	cmpSet := func(name string, got []types.WorkReportHash, want map[types.WorkReportHash]bool) bool {
		if len(got) != len(want) {
			r.Violate("C35", "records", name+"-set-wrong", "block depth %d: %s set has %d entries, reference %d", b.depth, name, len(got), len(want))
			return false
		}
		for _, h := range got {
			if !want[h] {
				r.Violate("C35", "records", name+"-set-wrong", "block depth %d: %s set contains %x which the reference does not", b.depth, name, h[:4])
				return false
			}
		}
		if !sortedHashes(got) {
			r.Violate("C35", "records", name+"-set-not-sorted", "block depth %d: %s set is not sorted / has duplicates: %x", b.depth, name, got)
			return false
		}
		return true
	}
	if !cmpSet("good", post.Psi.Good, good) || !cmpSet("bad", post.Psi.Bad, bad) || !cmpSet("wonky", post.Psi.Wonky, wonky) {
		return
	}
	for h := range good {
		if bad[h] || wonky[h] {
			r.Violate("C35", "records", "sets-not-disjoint", "block depth %d: %x is in two judgement sets", b.depth, h[:4])
			return
		}
	}
	for h := range bad {
		if wonky[h] {
			r.Violate("C35", "records", "sets-not-disjoint", "block depth %d: %x is in two judgement sets", b.depth, h[:4])
			return
		}
	}
	off := map[types.Ed25519Public]bool{}
	for _, k := range prior.Psi.Offenders {
		off[k] = true
	}
	for _, c := range d.Culprits {
		off[c.Key] = true
	}
	for _, f := range d.Faults {
		off[f.Key] = true
	}
	if len(post.Psi.Offenders) != len(off) {
		r.Violate("C35", "offenders", "offender-set-wrong", "block depth %d: offender set has %d keys, reference %d", b.depth, len(post.Psi.Offenders), len(off))
		return
	}
	for i, k := range post.Psi.Offenders {
		if !off[k] {
			r.Violate("C35", "offenders", "offender-set-wrong", "block depth %d: offender %x not in the reference set", b.depth, k[:4])
			return
		}
		if i > 0 && bytes.Compare(post.Psi.Offenders[i-1][:], k[:]) >= 0 {
			r.Violate("C35", "offenders", "offender-set-not-sorted", "block depth %d: offender set is not sorted", b.depth)
			return
		}
	}
	if len(d.Culprits)+len(d.Faults) > 0 {
		r.Count("probe:offenders_added", int64(len(d.Culprits)+len(d.Faults)))
	}
	// judged bad or wonky reports leave pending availability
	for _, a := range prior.Rho {
		if a != nil {
			if h := reportHash(&a.Report); bad[h] || wonky[h] {
				r.Count("probe:judged_report_left_pending_availability", 1)
			}
		}
	}
	for c, a := range post.Rho {
		if a == nil {
			continue
		}
		raw, err := types.NewEncoder().Encode(&a.Report)
		if err != nil {
			continue
		}
		h := types.WorkReportHash(h256(raw))
		if bad[h] || wonky[h] {
			r.Violate("C35", "pending", "judged-report-still-pending", "block depth %d: core %d still holds report %x which is judged bad or wonky", b.depth, c, h[:4])
			return
		}
	}
}

// ---- C31 (admission and integration; the pure lookup function is not decided) -------------------

// refAvailableAt: t lies in one of the availability intervals the recorded slots describe
// ([x] -> [x,inf); [x,y] -> [x,y); [x,y,z] -> [x,y) and [z,inf)).
func refAvailableAt(l types.TimeSlotSet, t types.TimeSlot) bool {
	switch len(l) {
	case 1:
		return t >= l[0]
	case 2:
		return t >= l[0] && t < l[1]
	case 3:
		return (t >= l[0] && t < l[1]) || t >= l[2]
	}
	return false
}

// checkHistoricalLookup evaluates the repository's historical lookup on every stored preimage of the reached state,
// at the boundaries of its recorded slots (a by-product of the histories: the function itself is pure).
func checkHistoricalLookup(r *sim.Run, b *chainBlock, post *types.State) {
	var sids []types.ServiceID
	for sid := range post.Delta {
		sids = append(sids, sid)
	}
	sort.Slice(sids, func(i, j int) bool { return sids[i] < sids[j] })
	for _, sid := range sids {
		ac := post.Delta[sid]
		var keys []types.LookupMetaMapkey
		for key := range ac.LookupDict {
			keys = append(keys, key)
		}
		sort.Slice(keys, func(i, j int) bool { return bytes.Compare(keys[i].Hash[:], keys[j].Hash[:]) < 0 })
		for _, key := range keys {
			slots := ac.LookupDict[key]
			blob, stored := ac.PreimageLookup[key.Hash]
			if !stored || types.U32(len(blob)) != key.Length {
				continue
			}
			if bytes.HasPrefix(blob, []byte("cycled-preimage")) {
				r.Count(fmt.Sprintf("probe:cycled_preimage_entry_with_%d_slots", len(slots)), 1)
			}
			times := []types.TimeSlot{0, post.Tau, post.Tau + 1000}
			for _, s := range slots {
				times = append(times, s, s+1)
				if s > 0 {
					times = append(times, s-1)
				}
			}
			for _, t := range times {
				got := service_account.HistoricalLookup(ac, t, key.Hash)
				want := refAvailableAt(slots, t)
				r.Count("probe:historical_lookup_evaluated", 1)
				if len(slots) == 3 {
					r.Count("probe:historical_lookup_on_three_slot_entry", 1)
				}
				if want != (got != nil) || (want && !bytes.Equal(got, blob)) {
					r.Violate("C31", "lookup", fmt.Sprintf("historical-lookup-wrong:%d-slots", len(slots)), "block depth %d: service %d preimage %x with recorded slots %v: historical lookup at time %d returns %d octets (nil=%v), the availability intervals say available=%v", b.depth, sid, key.Hash[:4], []types.TimeSlot(slots), t, len(got), got == nil, want)
					return
				}
			}
		}
	}
}

func checkC31(r *sim.Run, b *chainBlock, prior, post *types.State) {
	checkHistoricalLookup(r, b, post)
	if r.Violated() {
		return
	}
	ext := b.block.Extrinsic.Preimages
	for i := 1; i < len(ext); i++ {
		if ext[i-1].Requester > ext[i].Requester || (ext[i-1].Requester == ext[i].Requester && bytes.Compare(ext[i-1].Blob, ext[i].Blob) >= 0) {
			r.Violate("C31", "admission", "unordered-preimages-accepted", "block depth %d was accepted with preimage entries %d,%d out of order", b.depth, i-1, i)
			return
		}
	}
	for _, p := range ext {
		h := h256(p.Blob)
		key := types.LookupMetaMapkey{Hash: h, Length: types.U32(len(p.Blob))}
		pa, ok := prior.Delta[p.Requester]
		ts, has := rawLookup(b.parent.kvs, p.Requester, key) // raw: the parser attributes lookup entries only next to a stored preimage
		_, stored := pa.PreimageLookup[h]
		if !ok || !has || len(ts) != 0 || stored {
			r.Violate("C31", "admission", "unsolicited-or-provided-preimage-accepted", "block depth %d was accepted with a preimage for service %d that was not solicited-and-unprovided (account=%v entry=%v slots=%v stored=%v)", b.depth, p.Requester, ok, has, ts, stored)
			return
		}
		// accumulation in the same block may touch a lookup entry; the generated service programs do not
		qa := post.Delta[p.Requester]
		got, has2 := rawLookup(b.kvs, p.Requester, key)
		blob, stored2 := qa.PreimageLookup[h]
		if !has2 || len(got) != 1 || got[0] != b.block.Header.Slot || !stored2 || !bytes.Equal(blob, p.Blob) {
			r.Violate("C31", "integration", "accepted-preimage-not-stored-with-block-slot", "block depth %d slot %d: preimage of service %d: lookup entry %v (present=%v), blob stored=%v", b.depth, b.block.Header.Slot, p.Requester, got, has2, stored2)
			return
		}
		r.Count("probe:preimage_integrated", 1)
	}
	// nothing else is stored: every new preimage of the posterior state was in the extrinsic
	for sid, qa := range post.Delta {
		for h := range qa.PreimageLookup {
			if _, before := prior.Delta[sid].PreimageLookup[h]; before {
				continue
			}
			found := false
			for _, p := range ext {
				if p.Requester == sid && h256(p.Blob) == h {
					found = true
				}
			}
			if !found {
				r.Violate("C31", "integration", "preimage-stored-without-extrinsic-entry", "block depth %d: service %d gained preimage %x which the block's preimage extrinsic does not provide", b.depth, sid, h[:4])
				return
			}
		}
	}
}

// ---- C24 ------------------------------------------------------------------------------------

func checkC24(r *sim.Run, b *chainBlock, prior, post *types.State) {
	for c := 0; c < types.CoresCount; c++ {
		pool := append([]types.AuthorizerHash(nil), prior.Alpha[c]...)
		for _, g := range b.block.Extrinsic.Guarantees {
			if int(g.Report.CoreIndex) != c {
				continue
			}
			for i, a := range pool {
				if a == types.AuthorizerHash(g.Report.AuthorizerHash) {
					pool = append(pool[:i], pool[i+1:]...)
					r.Count("probe:authorizer_removed_from_pool", 1)
					break
				}
			}
		}
		// φ′ (the queue after accumulation of this block) supplies the new entry
		q := post.Varphi[c]
		pool = append(pool, q[int(b.block.Header.Slot)%types.AuthQueueSize])
		if len(pool) > types.AuthPoolMaxSize {
			pool = pool[len(pool)-types.AuthPoolMaxSize:]
			r.Count("probe:pool_overflow_oldest_dropped", 1)
		}
		got := post.Alpha[c]
		if len(got) > types.AuthPoolMaxSize {
			r.Violate("C24", "pool", "pool-longer-than-O", "block depth %d core %d: pool has %d entries", b.depth, c, len(got))
			return
		}
		if len(got) != len(pool) || (len(pool) > 0 && !reflect.DeepEqual([]types.AuthorizerHash(got), pool)) {
			r.Violate("C24", "pool", "pool-transition-wrong", "block depth %d slot %d core %d: pool %x, reference %x (prior %x)", b.depth, b.block.Header.Slot, c, got, pool, prior.Alpha[c])
			return
		}
	}
}

// ---- C17 / C16 on every exported state ------------------------------------------------------

func checkExport(r *sim.Run, b *chainBlock) {
	if r.Wants("C17") {
		st, unmatched, err := merklization.StateKeyValsToState(b.kvs.DeepCopy())
		if err != nil {
			r.Violate("C17", "parse", "export-cannot-be-parsed", "block depth %d: exported key-values cannot be parsed back: %v", b.depth, err)
			return
		}
		again, err := merklization.StateEncoder(st)
		if err != nil {
			r.Violate("C17", "parse", "parsed-state-cannot-be-serialised", "block depth %d: %v", b.depth, err)
			return
		}
		all := append(append(types.StateKeyVals(nil), again...), unmatched...)
		if kvString(all) != kvString(b.kvs) {
			r.Violate("C17", "roundtrip", "parse-serialise-not-identity", "block depth %d: parse -> serialise (+raw entries) is not the exported set: %s", b.depth, kvDiff(b.kvs, all))
			return
		}
		r.Count("probe:export_roundtrip_checked", 1)
		if len(unmatched) > 0 {
			r.Count("probe:export_with_raw_entries", 1)
		}
	}
	if r.Wants("C16") {
		plain := merklization.MerklizationSerializedState(b.kvs)
		if plain != b.root {
			r.Violate("C16", "cached-root-differs", "import-root-differs-from-uncached-root", "block depth %d: root returned by the node (leaf cache) %x differs from the uncached root of its exported key-values %x", b.depth, b.root[:6], plain[:6])
		}
	}
}

func checkTransition(r *sim.Run, ru *run, b *chainBlock) {
	prior, post := b.parent.state, b.state
	if post == nil {
		return
	}
	checkExport(r, b)
	if r.Violated() {
		return
	}
	if r.Wants("C23") {
		checkC23(r, b, prior, post)
	}
	if r.Wants("C25") && !r.Violated() {
		checkC25(r, b, prior, post)
	}
	if r.Wants("C34") && !r.Violated() {
		checkC34(r, b, prior, post)
	}
	if r.Wants("C35") && !r.Violated() {
		checkC35(r, b, prior, post)
	}
	if r.Wants("C31") && !r.Violated() {
		checkC31(r, b, prior, post)
	}
	if r.Wants("C24") && !r.Violated() {
		checkC24(r, b, prior, post)
	}
	if r.Wants("C21") && !r.Violated() {
		checkC21(r, b, prior, post)
	}
}

