//go:build verif

package h4chain_test

import (
	"bytes"
	"fmt"
	"sort"
	"strings"

	"github.com/New-JAMneration/JAM-Protocol/internal/types"
	"github.com/New-JAMneration/JAM-Protocol/internal/utilities/merklization"
	"github.com/New-JAMneration/JAM-Protocol/internal/zzverif/sim"
)

// Reference models for the reports pipeline (stage B), written from the Gray Paper text and the
// property statements. Inputs: the prior state parsed from GetState(parent), the block; compared
// with the posterior state parsed from GetState(block).

// refAvailable is W: the reports that become available in this block, in core order.
func refAvailable(prior *types.State, b *types.Block) []types.WorkReport {
	rhoD := pendingAfterDisputes(prior, b.Extrinsic.Disputes)
	var out []types.WorkReport
	for c := 0; c < types.CoresCount; c++ {
		if rhoD[c] == nil {
			continue
		}
		n := 0
		for _, a := range b.Extrinsic.Assurances {
			if c < len(a.Bitfield) && a.Bitfield[c] == 1 {
				n++
			}
		}
		if 3*n > 2*types.ValidatorsCount { // more than two thirds
			out = append(out, rhoD[c].Report)
		}
	}
	return out
}

type refRecord struct {
	report types.WorkReport
	deps   []types.WorkPackageHash // in the order of D(w): prerequisites, then segment-root lookups
}

func refDeps(w types.WorkReport) refRecord {
	r := refRecord{report: w}
	for _, p := range w.Context.Prerequisites {
		r.deps = append(r.deps, types.WorkPackageHash(p))
	}
	for _, l := range w.SegmentRootLookup {
		r.deps = append(r.deps, l.WorkPackageHash)
	}
	return r
}

// refEdit is E (12.7): drop records whose own package is in x, remove x from the dependencies of the rest.
func refEdit(r []refRecord, x map[types.WorkPackageHash]bool) []refRecord {
	var out []refRecord
	for _, rec := range r {
		if x[rec.report.PackageSpec.Hash] {
			continue
		}
		n := refRecord{report: rec.report}
		for _, d := range rec.deps {
			if !x[d] {
				n.deps = append(n.deps, d)
			}
		}
		out = append(out, n)
	}
	return out
}

// refPriority is Q (12.8).
func refPriority(r []refRecord) []types.WorkReport {
	var g []types.WorkReport
	gx := map[types.WorkPackageHash]bool{}
	for _, rec := range r {
		if len(rec.deps) == 0 {
			g = append(g, rec.report)
			gx[rec.report.PackageSpec.Hash] = true
		}
	}
	if len(g) == 0 {
		return nil
	}
	return append(g, refPriority(refEdit(r, gx))...)
}

func fromQueueItem(q types.ReadyQueueItem) []refRecord {
	var out []refRecord
	for _, rr := range q {
		out = append(out, refRecord{report: rr.Report, deps: append([]types.WorkPackageHash(nil), rr.Dependencies...)})
	}
	return out
}

func recString(r []refRecord) string {
	var s []string
	for _, rec := range r {
		var d []string
		for _, x := range rec.deps {
			d = append(d, fmt.Sprintf("%x", x[:3]))
		}
		sort.Strings(d) // dependencies are a set
		s = append(s, fmt.Sprintf("%x<-{%s}", rec.report.PackageSpec.Hash[:3], strings.Join(d, ",")))
	}
	return "[" + strings.Join(s, " ") + "]"
}

func hashSetString(h []types.WorkPackageHash) string {
	var s []string
	for _, x := range h {
		s = append(s, fmt.Sprintf("%x", x[:3]))
	}
	sort.Strings(s)
	return "{" + strings.Join(s, ",") + "}"
}

func checkC21(r *sim.Run, b *chainBlock, prior, post *types.State) {
	E := types.EpochLength
	W := refAvailable(prior, &b.block)
	accumulated := map[types.WorkPackageHash]bool{} // ©ξ
	for _, x := range prior.Xi {
		for _, h := range x {
			accumulated[h] = true
		}
	}
	var bang []types.WorkReport
	var withDeps []refRecord
	for _, w := range W {
		if len(w.Context.Prerequisites) == 0 && len(w.SegmentRootLookup) == 0 {
			bang = append(bang, w)
		} else {
			withDeps = append(withDeps, refDeps(w))
		}
	}
	WQ := refEdit(withDeps, accumulated)
	m := int(b.block.Header.Slot) % E
	var composed []refRecord
	for _, q := range prior.Vartheta[m:] {
		composed = append(composed, fromQueueItem(q)...)
	}
	for _, q := range prior.Vartheta[:m] {
		composed = append(composed, fromQueueItem(q)...)
	}
	composed = append(composed, WQ...)
	bangX := map[types.WorkPackageHash]bool{}
	for _, w := range bang {
		bangX[w.PackageSpec.Hash] = true
	}
	star := append(append([]types.WorkReport(nil), bang...), refPriority(refEdit(composed, bangX))...)
	if len(star) > types.EpochLength+1 {
		r.Count("probe:more_than_an_epoch_of_reports_accumulatable_in_one_block", 1)
	}
	// every selected report fits the block's gas in the generated histories (checked, not assumed)
	var gas uint64
	for _, w := range star {
		for _, res := range w.Results {
			gas += uint64(res.AccumulateGas)
		}
	}
	if gas > uint64(types.TotalGas) {
		r.Count("info:c21_gas_limited_block_skipped", 1)
		return
	}
	if len(W) > 0 {
		r.Count("probe:reports_became_available", int64(len(W)))
	}
	if len(star) > len(bang) {
		r.Count("probe:queued_report_accumulated_after_its_dependency", int64(len(star)-len(bang)))
	}
	var starH []types.WorkPackageHash
	starX := map[types.WorkPackageHash]bool{}
	for _, w := range star {
		if accumulated[w.PackageSpec.Hash] {
			r.Violate("C21", "selection", "accumulated-report-chosen-again", "block depth %d: reference selection itself picks %x which is in the accumulated history (harness error?)", b.depth, w.PackageSpec.Hash[:4])
			return
		}
		starH = append(starH, w.PackageSpec.Hash)
		starX[w.PackageSpec.Hash] = true
	}
	// ξ′: shifted by one, newest entry = the packages accumulated in this block
	if len(post.Xi) != E || len(post.Vartheta) != E {
		r.Violate("C21", "shape", "queue-length-wrong", "block depth %d: accumulated history has %d entries, ready queue %d", b.depth, len(post.Xi), len(post.Vartheta))
		return
	}
	for i := 0; i < E-1; i++ {
		if hashSetString(post.Xi[i]) != hashSetString(prior.Xi[i+1]) {
			r.Violate("C21", "history", "accumulated-history-not-shifted", "block depth %d slot %d: accumulated-history entry %d is %s, the prior entry %d was %s", b.depth, b.block.Header.Slot, i, hashSetString(post.Xi[i]), i+1, hashSetString(prior.Xi[i+1]))
			return
		}
	}
	if hashSetString(post.Xi[E-1]) != hashSetString(starH) {
		what := "accumulated-set-wrong"
		for _, h := range post.Xi[E-1] {
			if accumulated[h] {
				what = "accumulated-report-chosen-again"
			}
		}
		r.Violate("C21", "selection", what, "block depth %d slot %d: %d reports became available (%d without dependencies); accumulated in this block %s, reference %s; prior ready queue %s", b.depth, b.block.Header.Slot, len(W), len(bang),
			hashSetString(post.Xi[E-1]), hashSetString(starH), queueString(prior.Vartheta))
		return
	}
	// ϑ′ (12.33)
	gap := int(b.block.Header.Slot) - int(prior.Tau)
	for i := 0; i < E; i++ {
		idx := ((m-i)%E + E) % E
		var want []refRecord
		switch {
		case i == 0:
			want = refEdit(WQ, starX)
		case i < gap:
			want = nil
		default:
			want = refEdit(fromQueueItem(prior.Vartheta[idx]), starX)
		}
		got := fromQueueItem(post.Vartheta[idx])
		if recString(got) != recString(want) {
			kind := "kept-entry"
			if i == 0 {
				kind = "new-entry"
			} else if i < gap {
				kind = "skipped-slot-entry"
			}
			r.Violate("C21", "queue", "ready-queue-"+kind+"-wrong", "block depth %d slot %d (prior slot %d): ready-queue entry %d (i=%d) is %s, reference %s; accumulated now %s", b.depth, b.block.Header.Slot, prior.Tau, idx, i, recString(got), recString(want), hashSetString(starH))
			return
		}
		if len(want) > 0 {
			r.Count("probe:report_waits_in_ready_queue", int64(len(want)))
		}
	}
	// invariants of the statement, checked directly on the posterior state
	all := map[types.WorkPackageHash]int{}
	for _, x := range post.Xi {
		for _, h := range x {
			all[h]++
		}
	}
	for h, n := range all {
		if n > 1 {
			r.Violate("C21", "history", "package-accumulated-twice", "block depth %d: package %x appears %d times in the accumulated history", b.depth, h[:4], n)
			return
		}
	}
	for qi, q := range post.Vartheta {
		for _, rr := range q {
			if all[rr.Report.PackageSpec.Hash] > 0 {
				r.Violate("C21", "queue", "queue-holds-accumulated-report", "block depth %d: ready-queue entry %d holds %x which is in the accumulated history", b.depth, qi, rr.Report.PackageSpec.Hash[:4])
				return
			}
			for _, d := range rr.Dependencies {
				if all[d] > 0 {
					r.Violate("C21", "queue", "queue-holds-satisfied-dependency", "block depth %d: ready-queue entry %d: report %x still waits for %x which is accumulated", b.depth, qi, rr.Report.PackageSpec.Hash[:4], d[:4])
					return
				}
			}
		}
	}
	// order: every service program stores the items it was given, in order, under one key; the package hashes
	// inside that value must appear in the reference order
	if len(star) >= 2 {
		// service storage values are exactly the exported entries the state parser cannot attribute (raw entries)
		_, raw, err := merklization.StateKeyValsToState(b.kvs.DeepCopy())
		if err != nil {
			return
		}
		for _, kv := range raw {
			v := []byte(kv.Value)
			if len(v) < 64 {
				continue
			}
			last, lastIdx := -1, -1
			for k, w := range star {
				p := bytes.Index(v, w.PackageSpec.Hash[:])
				if p < 0 {
					continue
				}
				if p < last {
					r.Violate("C21", "order", "accumulation-order-wrong", "block depth %d: a service was given report %x (position %d of the reference order) before report %x (position %d)", b.depth, w.PackageSpec.Hash[:4], k, star[lastIdx].PackageSpec.Hash[:4], lastIdx)
					return
				}
				if lastIdx >= 0 {
					r.Count("probe:two_reports_observed_in_order_by_one_service", 1)
				}
				last, lastIdx = p, k
			}
		}
	}
}

func queueString(q types.ReadyQueue) string {
	var s []string
	for i, it := range q {
		if len(it) > 0 {
			s = append(s, fmt.Sprintf("%d:%s", i, recString(fromQueueItem(it))))
		}
	}
	return "[" + strings.Join(s, " ") + "]"
}

// ---- C34: guarantors, cores, services ---------------------------------------------------------------

// refGuarantorKeys: the Ed25519 keys of the validators whose signatures are in the block's guarantees (the reporters set).
func refGuarantorKeys(b *chainBlock, prior, post *types.State) map[types.Ed25519Public]bool {
	R := map[types.Ed25519Public]bool{}
	tau := int(b.block.Header.Slot)
	for _, g := range b.block.Extrinsic.Guarantees {
		set := post.Kappa
		if tau/types.RotationPeriod != int(g.Slot)/types.RotationPeriod {
			// previous rotation: the previous epoch's validators if that rotation lies in the previous epoch
			if (tau-types.RotationPeriod)/types.EpochLength != tau/types.EpochLength {
				set = post.Lambda
			}
		}
		for _, s := range g.Signatures {
			if int(s.ValidatorIndex) < len(set) {
				R[set[s.ValidatorIndex].Ed25519] = true
			}
		}
	}
	return R
}

func checkC34CoresServicesB(r *sim.Run, b *chainBlock, prior, post *types.State) {
	ext := b.block.Extrinsic
	W := refAvailable(prior, &b.block)
	// cores
	for c := 0; c < types.CoresCount; c++ {
		var want types.CoreActivityRecord
		for _, g := range ext.Guarantees {
			if int(g.Report.CoreIndex) != c {
				continue
			}
			for _, res := range g.Report.Results {
				want.Imports += res.RefineLoad.Imports
				want.ExtrinsicCount += res.RefineLoad.ExtrinsicCount
				want.ExtrinsicSize += res.RefineLoad.ExtrinsicSize
				want.Exports += res.RefineLoad.Exports
				want.GasUsed += res.RefineLoad.GasUsed
			}
			want.BundleSize += g.Report.PackageSpec.Length
		}
		for _, w := range W {
			if int(w.CoreIndex) == c {
				want.DALoad += w.PackageSpec.Length + types.U32(types.SegmentSize)*((types.U32(w.PackageSpec.ExportsCount)*65+63)/64)
			}
		}
		for _, a := range ext.Assurances {
			if c < len(a.Bitfield) && a.Bitfield[c] == 1 {
				want.Popularity++
			}
		}
		if c >= len(post.Pi.Cores) || post.Pi.Cores[c] != want {
			var got types.CoreActivityRecord
			if c < len(post.Pi.Cores) {
				got = post.Pi.Cores[c]
			}
			r.Violate("C34", "cores", "core-record-wrong", "block depth %d slot %d core %d (%d guarantees, %d assurances, %d newly available): record %+v, reference %+v", b.depth, b.block.Header.Slot, c, len(ext.Guarantees), len(ext.Assurances), len(W), got, want)
			return
		}
		if want != (types.CoreActivityRecord{}) {
			r.Count("probe:core_record_nonzero", 1)
		}
	}
	// services: provided (preimages), refined (incoming reports), accumulated (count only: the gas a PVM run uses is not modelled)
	want := map[types.ServiceID]types.ServiceActivityRecord{}
	for _, p := range ext.Preimages {
		rec := want[p.Requester]
		rec.ProvidedCount++
		rec.ProvidedSize += types.U32(len(p.Blob))
		want[p.Requester] = rec
	}
	for _, g := range ext.Guarantees {
		for _, res := range g.Report.Results {
			rec := want[res.ServiceID]
			rec.RefinementCount++
			rec.RefinementGasUsed += res.RefineLoad.GasUsed
			rec.Imports += types.U32(res.RefineLoad.Imports)
			rec.ExtrinsicCount += types.U32(res.RefineLoad.ExtrinsicCount)
			rec.ExtrinsicSize += res.RefineLoad.ExtrinsicSize
			rec.Exports += types.U32(res.RefineLoad.Exports)
			want[res.ServiceID] = rec
		}
	}
	accCount := map[types.ServiceID]types.U32{}
	for _, h := range post.Xi[types.EpochLength-1] {
		// the reports accumulated in this block: found among W and the prior ready queue
		var rep *types.WorkReport
		for i := range W {
			if W[i].PackageSpec.Hash == h {
				rep = &W[i]
			}
		}
		for _, q := range prior.Vartheta {
			for i := range q {
				if q[i].Report.PackageSpec.Hash == h {
					rep = &q[i].Report
				}
			}
		}
		if rep == nil {
			continue // C21 reports this
		}
		for _, res := range rep.Results {
			accCount[res.ServiceID]++
		}
	}
	for sid, n := range accCount {
		rec := want[sid]
		rec.AccumulateCount = n
		want[sid] = rec
	}
	for sid, got := range post.Pi.Services {
		w, ok := want[sid]
		g := got
		// gas used by accumulation is taken as reported, but must be positive exactly when the service was invoked with work or
		// received transfers (a service that only received a transfer has count 0 and gas > 0: it is not in `want`)
		w.AccumulateGasUsed = g.AccumulateGasUsed
		if !ok {
			if g.AccumulateGasUsed == 0 || g != (types.ServiceActivityRecord{AccumulateGasUsed: g.AccumulateGasUsed}) {
				r.Violate("C34", "services", "service-record-wrong", "block depth %d: service %d has record %+v although the block neither reports, provides nor accumulates work for it", b.depth, sid, g)
				return
			}
			r.Count("probe:service_record_for_transfer_receiver_only", 1)
			continue
		}
		if g != w {
			r.Violate("C34", "services", "service-record-wrong", "block depth %d slot %d: service %d record %+v, reference %+v (accumulate gas not modelled)", b.depth, b.block.Header.Slot, sid, g, w)
			return
		}
		if w.AccumulateCount > 0 && g.AccumulateGasUsed == 0 {
			r.Violate("C34", "services", "service-accumulated-without-gas", "block depth %d: service %d accumulated %d work items with zero gas used", b.depth, sid, w.AccumulateCount)
			return
		}
	}
	// independent evidence that a service ran in this block: every generated service program stores the items it was
	// given (work items AND incoming transfers) under the key "in"; a changed entry means the service was invoked,
	// so it used gas and must have a record - also when it has no work item in this block (transfer receiver)
	kvOf := func(kvs types.StateKeyVals) map[types.StateKey]string {
		m := make(map[types.StateKey]string, len(kvs))
		for _, kv := range kvs {
			m[kv.Key] = string(kv.Value)
		}
		return m
	}
	priorKV, postKV := kvOf(b.parent.kvs), kvOf(b.kvs)
	var sids []types.ServiceID
	for sid := range post.Delta {
		sids = append(sids, sid)
	}
	sort.Slice(sids, func(i, j int) bool { return sids[i] < sids[j] })
	for _, sid := range sids {
		k := merklization.WrapEncodeDelta2KeyVal(sid, types.ByteSequence("in"), nil).Key
		after, has := postKV[k]
		if !has || after == priorKV[k] {
			continue
		}
		rec, ok := post.Pi.Services[sid]
		if !ok || rec.AccumulateGasUsed == 0 {
			r.Violate("C34", "services", "invoked-service-without-accumulation-record", "block depth %d slot %d: service %d ran in this block (the items it stores under \"in\" changed) but its record is %+v (present=%v); %d work items accumulated for it", b.depth, b.block.Header.Slot, sid, rec, ok, accCount[sid])
			return
		}
		if accCount[sid] == 0 {
			r.Count("probe:service_invoked_without_work_item_has_record", 1)
		}
	}
	for sid, w := range want {
		if _, ok := post.Pi.Services[sid]; !ok {
			r.Violate("C34", "services", "service-record-missing", "block depth %d slot %d: no record for service %d, reference %+v", b.depth, b.block.Header.Slot, sid, w)
			return
		}
		if w.AccumulateCount > 0 {
			r.Count("probe:service_accumulated_work", int64(w.AccumulateCount))
		}
		if w.RefinementCount > 0 {
			r.Count("probe:service_refinement_recorded", int64(w.RefinementCount))
		}
	}
}
