//go:build verif

package h4chain_test

import (
	"bytes"
	"fmt"
	"sort"

	"github.com/New-JAMneration/JAM-Protocol/internal/types"
	"github.com/New-JAMneration/JAM-Protocol/internal/utilities"
	"github.com/New-JAMneration/JAM-Protocol/internal/zzverif/sim"
	vrf "github.com/New-JAMneration/JAM-Protocol/pkg/Rust-VRF/vrf-func-ffi/src"
)

// A mutation turns a valid block into one that must be rejected at a chosen STF stage.
// mustReject names the property whose text demands the rejection (independent expectation);
// "" means the expectation comes from the clean oracle incarnation only.
type mutation struct {
	name       string
	stage      int
	mustReject string
	apply      func(ru *run, parent *chainBlock, b *types.Block, offenders *[]types.Ed25519Public) bool
	reseal     int // 0 reseal fully (entropy + seal), 1 seal only, 2 none
}

func fixExtrinsicHash(b *types.Block) {
	normaliseExtrinsic(&b.Extrinsic)
	xh, err := utilities.CreateExtrinsicHash(b.Extrinsic)
	if err != nil {
		panic(err)
	}
	b.Header.ExtrinsicHash = xh
}

var mutations = []mutation{
	{name: "bad-slot", stage: 5, apply: func(ru *run, p *chainBlock, b *types.Block, _ *[]types.Ed25519Public) bool {
		b.Header.Slot = p.state.Tau - types.TimeSlot(ru.t.Choose(2, "slot_back"))
		return true
	}, reseal: 2},
	{name: "bad-parent-state-root", stage: 2, apply: func(ru *run, p *chainBlock, b *types.Block, _ *[]types.Ed25519Public) bool {
		b.Header.ParentStateRoot[ru.t.Choose(32, "byte")] ^= 0x40
		return true
	}},
	{name: "zero-parent-state-root", stage: 2, apply: func(ru *run, p *chainBlock, b *types.Block, _ *[]types.Ed25519Public) bool {
		b.Header.ParentStateRoot = types.StateRoot{}
		return true
	}},
	{name: "bad-extrinsic-hash", stage: 2, apply: func(ru *run, p *chainBlock, b *types.Block, _ *[]types.Ed25519Public) bool {
		b.Header.ExtrinsicHash[ru.t.Choose(32, "byte")] ^= 1
		return true
	}},
	{name: "bad-author", stage: 6, apply: func(ru *run, p *chainBlock, b *types.Block, _ *[]types.Ed25519Public) bool {
		b.Header.AuthorIndex = types.ValidatorIndex((int(b.Header.AuthorIndex) + 1 + ru.t.Choose(types.ValidatorsCount-1, "other")) % types.ValidatorsCount)
		return true
	}},
	{name: "author-index-out-of-range", stage: 2, apply: func(ru *run, p *chainBlock, b *types.Block, _ *[]types.Ed25519Public) bool {
		b.Header.AuthorIndex = types.ValidatorIndex(types.ValidatorsCount + ru.t.Choose(3, "oor"))
		return true
	}, reseal: 2},
	{name: "bad-seal", stage: 6, apply: func(ru *run, p *chainBlock, b *types.Block, _ *[]types.Ed25519Public) bool {
		b.Header.Seal[32+ru.t.Choose(32, "byte")] ^= 0x80
		return true
	}, reseal: 2},
	{name: "bad-entropy-signature", stage: 6, apply: func(ru *run, p *chainBlock, b *types.Block, _ *[]types.Ed25519Public) bool {
		b.Header.EntropySource[32+ru.t.Choose(32, "byte")] ^= 0x01
		return true
	}, reseal: 1},
	{name: "epoch-mark-wrong", stage: 6, apply: func(ru *run, p *chainBlock, b *types.Block, _ *[]types.Ed25519Public) bool {
		if b.Header.EpochMark != nil {
			if ru.t.Bool("drop") {
				b.Header.EpochMark = nil
			} else {
				em := *b.Header.EpochMark
				em.Entropy[0] ^= 1
				b.Header.EpochMark = &em
			}
		} else {
			b.Header.EpochMark = &types.EpochMark{Validators: make([]types.EpochMarkValidatorKeys, types.ValidatorsCount)}
		}
		return true
	}},
	{name: "tickets-unsorted", stage: 5, mustReject: "C23", apply: func(ru *run, p *chainBlock, b *types.Block, _ *[]types.Ed25519Public) bool {
		t := b.Extrinsic.Tickets
		if len(t) < 2 {
			return false
		}
		t = append(types.TicketsExtrinsic(nil), t...)
		t[0], t[len(t)-1] = t[len(t)-1], t[0]
		b.Extrinsic.Tickets = t
		fixExtrinsicHash(b)
		return true
	}},
	{name: "tickets-duplicate", stage: 5, mustReject: "C23", apply: func(ru *run, p *chainBlock, b *types.Block, _ *[]types.Ed25519Public) bool {
		t := b.Extrinsic.Tickets
		if len(t) < 1 {
			return false
		}
		i := ru.t.Choose(len(t), "dup")
		nt := append(types.TicketsExtrinsic(nil), t[:i+1]...)
		nt = append(nt, t[i])
		nt = append(nt, t[i+1:]...)
		b.Extrinsic.Tickets = nt
		fixExtrinsicHash(b)
		return true
	}},
	{name: "ticket-already-in-accumulator", stage: 5, mustReject: "C23", apply: func(ru *run, p *chainBlock, b *types.Block, _ *[]types.Ed25519Public) bool {
		// resubmit a ticket that the prior accumulator still holds (same epoch), next to the block's own tickets
		e, _ := epochOf(p.state.Tau)
		e2, m2 := epochOf(b.Header.Slot)
		if e2 != e || int(m2) >= types.SlotSubmissionEnd || len(p.state.Gamma.GammaA) == 0 || len(b.Extrinsic.Tickets) >= types.MaxTicketsPerBlock {
			return false
		}
		held := p.state.Gamma.GammaA[ru.t.Choose(len(p.state.Gamma.GammaA), "held")]
		o, ok := ru.a.owners[held.ID]
		if !ok {
			return false
		}
		picks := [][2]int{{o.val, int(o.attempt)}}
		for _, env := range b.Extrinsic.Tickets {
			var id types.TicketID
			copy(id[:], env.Signature[:32])
			if oo, ok := ru.a.owners[id]; ok {
				picks = append(picks, [2]int{oo.val, int(oo.attempt)})
			}
		}
		nt := ru.a.mkTickets(p.state, b.Header.Slot, picks)
		if len(nt) != len(b.Extrinsic.Tickets)+1 {
			return false
		}
		found := false
		for _, env := range nt {
			if string(env.Signature[:32]) == string(held.ID[:]) {
				found = true
			}
		}
		if !found {
			return false // the held ticket was made under another entropy (cannot happen within one epoch)
		}
		b.Extrinsic.Tickets = nt
		fixExtrinsicHash(b)
		return true
	}},
	{name: "ticket-over-attempt", stage: 5, mustReject: "C23", apply: func(ru *run, p *chainBlock, b *types.Block, _ *[]types.Ed25519Public) bool {
		_, m2 := epochOf(b.Header.Slot)
		if int(m2) >= types.SlotSubmissionEnd {
			return false
		}
		attempt := types.TicketsPerValidator + ru.t.Choose(3, "over")
		sv := ru.a.view(p.state, b.Header.Slot, nil)
		ctx := append(append([]byte(types.JamTicketSeal), sv.eta[2][:]...), byte(attempt))
		var env types.TicketEnvelope
		env.Attempt = types.TicketAttempt(attempt)
		copy(env.Signature[:], vrf.RingSignWithPublic(validators[0].pub.Bandersnatch[:], ctx, nil))
		b.Extrinsic.Tickets = types.TicketsExtrinsic{env}
		fixExtrinsicHash(b)
		return true
	}},
	{name: "ticket-bad-proof", stage: 5, apply: func(ru *run, p *chainBlock, b *types.Block, _ *[]types.Ed25519Public) bool {
		t := b.Extrinsic.Tickets
		if len(t) < 1 {
			return false
		}
		t = append(types.TicketsExtrinsic(nil), t...)
		t[0].Signature[70+ru.t.Choose(20, "byte")] ^= 4
		b.Extrinsic.Tickets = t
		fixExtrinsicHash(b)
		return true
	}},
	{name: "tickets-after-submission-window", stage: 5, mustReject: "C23", apply: func(ru *run, p *chainBlock, b *types.Block, _ *[]types.Ed25519Public) bool {
		_, m2 := epochOf(b.Header.Slot)
		if int(m2) < types.SlotSubmissionEnd || len(b.Extrinsic.Tickets) > 0 {
			return false
		}
		b.Extrinsic.Tickets = ru.a.mkTickets(p.state, b.Header.Slot, [][2]int{{ru.t.Choose(types.ValidatorsCount, "v"), 0}})
		fixExtrinsicHash(b)
		return true
	}},
	{name: "preimages-unsorted", stage: 7, mustReject: "C31", apply: func(ru *run, p *chainBlock, b *types.Block, _ *[]types.Ed25519Public) bool {
		e := b.Extrinsic.Preimages
		if len(e) < 2 {
			return false
		}
		e = append(types.PreimagesExtrinsic(nil), e...)
		switch ru.t.Choose(3, "unsorted_how") {
		case 0:
			e[0], e[len(e)-1] = e[len(e)-1], e[0]
		case 1: // two neighbours
			k := boundaryPos(ru.t, len(e)-1, "swap_at")
			e[k], e[k+1] = e[k+1], e[k]
		default: // the first entry moves to the end
			e = append(e[1:], e[0])
		}
		b.Extrinsic.Preimages = e
		fixExtrinsicHash(b)
		return true
	}},
	{name: "preimage-duplicate", stage: 7, mustReject: "C31", apply: func(ru *run, p *chainBlock, b *types.Block, _ *[]types.Ed25519Public) bool {
		e := b.Extrinsic.Preimages
		if len(e) < 1 {
			return false
		}
		// one entry appears twice in a row (anywhere in the list)
		k := boundaryPos(ru.t, len(e), "duplicate_at")
		d := append(types.PreimagesExtrinsic(nil), e[:k+1]...)
		d = append(d, e[k])
		b.Extrinsic.Preimages = append(d, e[k+1:]...)
		if len(b.Extrinsic.Preimages) > 64 {
			ru.r.Count("probe:damaged_preimage_extrinsic_longer_than_64", 1)
		}
		fixExtrinsicHash(b)
		return true
	}},
	{name: "preimage-unsolicited", stage: 7, mustReject: "C31", apply: func(ru *run, p *chainBlock, b *types.Block, _ *[]types.Ed25519Public) bool {
		sid := ru.g.svcIDs[ru.t.Choose(len(ru.g.svcIDs), "svc")]
		e := append(types.PreimagesExtrinsic(nil), b.Extrinsic.Preimages...)
		e = append(e, types.Preimage{Requester: sid, Blob: types.ByteSequence(fmt.Sprintf("nobody-asked-for-this-%d", ru.t.Choose(9, "x")))})
		sortPreimages(e)
		b.Extrinsic.Preimages = e
		fixExtrinsicHash(b)
		return true
	}},
	{name: "preimage-solicited-by-another-service-only", stage: 7, mustReject: "C31", apply: func(ru *run, p *chainBlock, b *types.Block, _ *[]types.Ed25519Public) bool {
		// a blob that one service solicited (and the block rightly provides to it) is ALSO handed to a service that
		// never asked for it
		e := append(types.PreimagesExtrinsic(nil), b.Extrinsic.Preimages...)
		if len(e) == 0 || len(ru.g.svcIDs) < 2 {
			return false
		}
		src := e[ru.t.Choose(len(e), "copied_entry")]
		var others []types.ServiceID
		for _, sid := range ru.g.svcIDs {
			if sid == src.Requester {
				continue
			}
			if _, has := rawLookup(p.kvs, sid, types.LookupMetaMapkey{Hash: h256(src.Blob), Length: types.U32(len(src.Blob))}); has {
				continue // that service has an entry for the blob too
			}
			dup := false
			for _, x := range e {
				dup = dup || (x.Requester == sid && string(x.Blob) == string(src.Blob))
			}
			if !dup {
				others = append(others, sid)
			}
		}
		if len(others) == 0 {
			return false
		}
		sid := others[ru.t.Choose(len(others), "other_service")]
		if sid > src.Requester {
			ru.r.Count("fault:unsolicited_copy_for_a_higher_service_id", 1)
		}
		e = append(e, types.Preimage{Requester: sid, Blob: append(types.ByteSequence(nil), src.Blob...)})
		sortPreimages(e)
		b.Extrinsic.Preimages = e
		fixExtrinsicHash(b)
		return true
	}},
	{name: "preimage-already-provided", stage: 7, mustReject: "C31", apply: func(ru *run, p *chainBlock, b *types.Block, _ *[]types.Ed25519Public) bool {
		// a blob that is stored already (provided at genesis or by an ancestor block)
		for _, sid := range ru.g.svcIDs {
			ac := p.state.Delta[sid]
			for _, blob := range append([][]byte{[]byte(fmt.Sprintf("stored-preimage-of-%d", sid))}, ru.g.solicited[sid]...) {
				if _, stored := ac.PreimageLookup[h256(blob)]; stored {
					e := append(types.PreimagesExtrinsic(nil), b.Extrinsic.Preimages...)
					e = append(e, types.Preimage{Requester: sid, Blob: append(types.ByteSequence(nil), blob...)})
					sortPreimages(e)
					// keep the list strictly ordered: drop exact duplicates
					var d types.PreimagesExtrinsic
					for i, x := range e {
						if i > 0 && x.Requester == e[i-1].Requester && string(x.Blob) == string(e[i-1].Blob) {
							continue
						}
						d = append(d, x)
					}
					b.Extrinsic.Preimages = d
					fixExtrinsicHash(b)
					return true
				}
			}
		}
		return false
	}},
	{name: "verdict-other-vote-count", stage: 4, mustReject: "C35", apply: func(ru *run, p *chainBlock, b *types.Block, _ *[]types.Ed25519Public) bool {
		d := b.Extrinsic.Disputes
		if len(d.Verdicts) == 0 {
			return false
		}
		vi := ru.t.Choose(len(d.Verdicts), "which")
		v := d.Verdicts[vi]
		votes := append([]types.Judgement(nil), v.Votes...)
		pos := 0
		for _, j := range votes {
			if j.Vote {
				pos++
			}
		}
		// flip one vote: 5->4, 0->1, 2->3 (or 1): none of them is a defined outcome for V=6
		k := ru.t.Choose(len(votes), "vote")
		set := p.state.Kappa
		e, _ := epochOf(p.state.Tau)
		if v.Age != types.U32(e) {
			set = p.state.Lambda
		}
		who := valByEd(set[votes[k].Index].Ed25519)
		if who == nil {
			return false
		}
		votes[k].Vote = !votes[k].Vote
		msg := append([]byte(types.JamInvalid), v.Target[:]...)
		if votes[k].Vote {
			msg = append([]byte(types.JamValid), v.Target[:]...)
		}
		votes[k].Signature = edSign(who, msg)
		nd := d
		nd.Verdicts = append([]types.Verdict(nil), d.Verdicts...)
		nd.Verdicts[vi].Votes = votes
		b.Extrinsic.Disputes = nd
		fixExtrinsicHash(b)
		return true
	}},
	{name: "verdict-bad-signature", stage: 4, apply: func(ru *run, p *chainBlock, b *types.Block, _ *[]types.Ed25519Public) bool {
		d := b.Extrinsic.Disputes
		if len(d.Verdicts) == 0 {
			return false
		}
		nd := d
		nd.Verdicts = append([]types.Verdict(nil), d.Verdicts...)
		votes := append([]types.Judgement(nil), nd.Verdicts[0].Votes...)
		votes[ru.t.Choose(len(votes), "vote")].Signature[5] ^= 2
		nd.Verdicts[0].Votes = votes
		b.Extrinsic.Disputes = nd
		fixExtrinsicHash(b)
		return true
	}},
	{name: "verdict-already-judged", stage: 4, apply: func(ru *run, p *chainBlock, b *types.Block, offenders *[]types.Ed25519Public) bool {
		// a second, otherwise fully valid verdict on a report that is already in one of the three sets, of the
		// same or of ANOTHER class (with the culprits / fault that class needs): accepting it would put the report
		// into two sets
		psi := p.state.Psi
		sets := [][]types.WorkReportHash{psi.Good, psi.Bad, psi.Wonky}
		var nonEmpty []int
		for i, l := range sets {
			if len(l) > 0 {
				nonEmpty = append(nonEmpty, i)
			}
		}
		if len(nonEmpty) == 0 {
			return false
		}
		oldClass := nonEmpty[ru.t.Choose(len(nonEmpty), "judged_set")]
		target := sets[oldClass][ru.t.Choose(len(sets[oldClass]), "judged_target")]
		newClass := ru.t.Choose(3, "rejudge_class") // 0 good, 1 bad, 2 wonky
		positives := []int{types.ValidatorsCount*2/3 + 1, 0, types.ValidatorsCount / 3}[newClass]
		e, _ := epochOf(p.state.Tau)
		v := types.Verdict{Target: target, Age: types.U32(e)}
		for idx := 0; idx < types.ValidatorsCount*2/3+1; idx++ {
			who := valByEd(p.state.Kappa[idx].Ed25519)
			if who == nil {
				return false
			}
			vote := idx < positives
			msg := append([]byte(types.JamInvalid), target[:]...)
			if vote {
				msg = append([]byte(types.JamValid), target[:]...)
			}
			v.Votes = append(v.Votes, types.Judgement{Vote: vote, Index: types.ValidatorIndex(idx), Signature: edSign(who, msg)})
		}
		d := types.DisputesExtrinsic{Verdicts: []types.Verdict{v}, Culprits: []types.Culprit{}, Faults: []types.Fault{}}
		offender := map[types.Ed25519Public]bool{}
		for _, o := range psi.Offenders {
			offender[o] = true
		}
		var cands []*valKey
		for i := range validators {
			k := validators[i].pub.Ed25519
			inSet := false
			for _, x := range append(append(types.ValidatorsData(nil), p.state.Kappa...), p.state.Lambda...) {
				inSet = inSet || x.Ed25519 == k
			}
			if inSet && !offender[k] {
				cands = append(cands, &validators[i])
			}
		}
		var marks []types.Ed25519Public
		switch newClass {
		case 1:
			if len(cands) < 2 {
				return false
			}
			for _, c := range cands[:2] {
				d.Culprits = append(d.Culprits, types.Culprit{Target: target, Key: c.pub.Ed25519, Signature: edSign(c, append([]byte(types.JamGuarantee), target[:]...))})
			}
			sort.Slice(d.Culprits, func(i, j int) bool { return bytes.Compare(d.Culprits[i].Key[:], d.Culprits[j].Key[:]) < 0 })
			for _, c := range d.Culprits {
				marks = append(marks, c.Key)
			}
		case 0:
			if len(cands) < 1 {
				return false
			}
			c := cands[len(cands)-1]
			d.Faults = append(d.Faults, types.Fault{Target: target, Vote: false, Key: c.pub.Ed25519, Signature: edSign(c, append([]byte(types.JamInvalid), target[:]...))})
			marks = append(marks, c.pub.Ed25519)
		}
		if newClass != oldClass {
			ru.r.Count("fault:judged_report_judged_again_with_another_class", 1)
		}
		b.Extrinsic.Disputes = d
		b.Extrinsic.Tickets = types.TicketsExtrinsic{} // tickets of the valid twin were signed for its own offender set
		b.Extrinsic.Guarantees = types.GuaranteesExtrinsic{}
		b.Header.OffendersMark = types.OffendersMark(append([]types.Ed25519Public{}, marks...))
		*offenders = marks
		fixExtrinsicHash(b)
		return true
	}},
	{name: "offenders-mark-wrong", stage: 2, apply: func(ru *run, p *chainBlock, b *types.Block, _ *[]types.Ed25519Public) bool {
		if len(b.Header.OffendersMark) > 0 {
			b.Header.OffendersMark = b.Header.OffendersMark[:len(b.Header.OffendersMark)-1]
		} else {
			b.Header.OffendersMark = types.OffendersMark{validators[ru.t.Choose(len(validators), "who")].pub.Ed25519}
		}
		return true
	}},
}

// boundaryPos picks a position in [0,n): in a long list half of the time the last position before a multiple of 16, 32
// or 64 (where an implementation that works in chunks has its seams), else anywhere.
func boundaryPos(t *sim.Tape, n int, label string) int {
	if n > 16 && t.Prob(1, 2, label+"_at_chunk_boundary") {
		step := []int{16, 32, 64}[t.Choose(3, label+"_chunk")]
		if n >= step {
			m := 1 + t.Choose(n/step, label+"_chunk_index")
			if k := m*step - 1; k < n {
				return k
			}
		}
	}
	return t.Choose(n, label)
}
