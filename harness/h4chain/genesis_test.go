//go:build verif

package h4chain_test

import (
	"bytes"
	"crypto/ed25519"
	"fmt"
	"sort"
	"strings"
	"sync"

	"github.com/New-JAMneration/JAM-Protocol/internal/keystore"
	"github.com/New-JAMneration/JAM-Protocol/internal/safrole"
	"github.com/New-JAMneration/JAM-Protocol/internal/types"
	"github.com/New-JAMneration/JAM-Protocol/internal/utilities/merklization"
	"github.com/New-JAMneration/JAM-Protocol/internal/zzverif/sim"
	vrf "github.com/New-JAMneration/JAM-Protocol/pkg/Rust-VRF/vrf-func-ffi/src"
	"golang.org/x/crypto/blake2b"
)

func h256(b ...[]byte) types.OpaqueHash {
	d, _ := blake2b.New256(nil)
	for _, x := range b {
		d.Write(x)
	}
	var o types.OpaqueHash
	copy(o[:], d.Sum(nil))
	return o
}

// valKeys are the six JIP-5 "trivial seed" validators the repository itself derives, so that the
// node's own secret lookup (safrole.LookupBandersnatchSecretSeed) and the author agree.
type valKey struct {
	pub    types.Validator
	bsk    []byte             // bandersnatch secret seed
	edPriv ed25519.PrivateKey // ed25519 signing key
}

var validators []valKey

func loadValidators() {
	if validators != nil {
		return
	}
	for i := uint32(0); i < uint32(types.ValidatorsCount); i++ {
		v, bsk, err := safrole.DeriveTinyValidator(i)
		if err != nil {
			panic(err)
		}
		seed := keystore.TrivialSeed(i)
		edSeed, _, edPub, _, err := keystore.DeriveValidatorKeys(seed[:])
		if err != nil {
			panic(err)
		}
		priv := ed25519.NewKeyFromSeed(edSeed)
		if string(priv.Public().(ed25519.PublicKey)) != string(edPub[:]) {
			panic("ed25519 derivation mismatch")
		}
		v.Metadata[0] = byte(i)
		validators = append(validators, valKey{pub: v, bsk: bsk, edPriv: priv})
	}
}

func valByBandersnatch(k types.BandersnatchPublic) *valKey {
	for i := range validators {
		if validators[i].pub.Bandersnatch == k {
			return &validators[i]
		}
	}
	return nil
}

func valByEd(k types.Ed25519Public) *valKey {
	for i := range validators {
		if validators[i].pub.Ed25519 == k {
			return &validators[i]
		}
	}
	return nil
}

// vrfOutput is the stand-in VRF output of key pub for context ctx.
func vrfOutput(v *valKey, ctx []byte) []byte {
	sig, err := vrf.IETFSign(v.bsk, ctx, nil)
	if err != nil {
		panic(err)
	}
	return sig[:32]
}

type genesis struct {
	header types.Header
	state  types.State
	kvs    types.StateKeyVals
	svcIDs []types.ServiceID
	// preimages that are solicited but not yet provided at genesis: service -> blobs
	solicited map[types.ServiceID][][]byte
	// tickets placed in the genesis accumulator: (validator, attempt) and identifier
	prefill    [][2]int
	prefillIDs []types.TicketID
	programs   map[types.ServiceID]*svcProgram
	// the node is started with an ancestry list (the genesis header): it then maintains the list and checks
	// lookup anchors of work reports against it
	withAncestry bool
	sharedAuthorizers bool
	deepChain         int
	longLived         bool
	lateSlot          bool
	alwaysAcc         bool
	bigStatistics     bool
	sharedBlob        []byte // solicited by every service of the genesis state
	permutedSets      bool
	specialKeys       int // storage entries whose state key has a chosen second octet
	prefixTwins       bool // two storage entries whose state keys share their first eight octets
	manySolicited     int // number of additional solicited blobs of the first service
	populous          int // number of additional (inert) services of a populous genesis state
	specialIDs   int // services whose identifier comes from the pool of special magnitudes / octet patterns
}

func validatorsData() types.ValidatorsData {
	vd := make(types.ValidatorsData, len(validators))
	for i := range validators {
		vd[i] = validators[i].pub
	}
	return vd
}

// mkGenesis builds a synthetic tiny-spec genesis state from the tape.
func mkGenesis(t *sim.Tape) *genesis {
	loadValidators()
	g := &genesis{solicited: map[types.ServiceID][][]byte{}, programs: map[types.ServiceID]*svcProgram{}}
	g.withAncestry = t.Bool("with_ancestry")
	st := &g.state
	vd := validatorsData()
	st.Iota = append(types.ValidatorsData(nil), vd...)
	st.Kappa = append(types.ValidatorsData(nil), vd...)
	st.Lambda = append(types.ValidatorsData(nil), vd...)
	st.Gamma.GammaK = append(types.ValidatorsData(nil), vd...)
	// two histories in three: the staging, pending, active and previous validator sets hold the six validators in
	// DIFFERENT orders, so that "validator index v" means another validator before and after an epoch change
	if t.Prob(2, 3, "permuted_validator_sets") {
		g.permutedSets = true
		for _, set := range []*types.ValidatorsData{&st.Iota, &st.Kappa, &st.Lambda, &st.Gamma.GammaK} {
			for i, j := range t.Perm(len(vd), "validator_set_order") {
				(*set)[i] = vd[j]
			}
		}
	}
	for i := range st.Eta {
		copy(st.Eta[i][:], t.Bytes(4, "eta"))
		st.Eta[i][31] = byte(i + 1)
	}
	var keys []types.BandersnatchPublic
	for _, v := range st.Gamma.GammaK {
		keys = append(keys, v.Bandersnatch)
	}
	z, err := safrole.GetBandersnatchRingRootCommitment(keys)
	if err != nil {
		panic(err)
	}
	st.Gamma.GammaZ = z
	st.Gamma.GammaS.Keys = safrole.FallbackKeySequence(st.Eta[2], st.Kappa)
	st.Gamma.GammaA = types.TicketsAccumulator{}
	// some histories start with a (nearly) full ticket accumulator: the states in which a new ticket displaces an
	// old one, and in which the next epoch is sealed with tickets, are otherwise rare
	if nPre := []int{0, 0, 0, 4, 9, 11, 12, 12}[t.Choose(8, "prefill_accumulator")]; nPre > 0 {
		perm := t.Perm(types.ValidatorsCount*types.TicketsPerValidator, "prefill_perm")
		for _, x := range perm[:nPre] {
			vi, attempt := x/types.TicketsPerValidator, x%types.TicketsPerValidator
			ctx := append(append([]byte(types.JamTicketSeal), st.Eta[2][:]...), byte(attempt))
			var tb types.TicketBody
			copy(tb.ID[:], vrf.RingOutput(validators[vi].pub.Bandersnatch[:], ctx))
			tb.Attempt = types.TicketAttempt(attempt)
			st.Gamma.GammaA = append(st.Gamma.GammaA, tb)
			g.prefill = append(g.prefill, [2]int{vi, attempt})
			g.prefillIDs = append(g.prefillIDs, tb.ID)
		}
		sort.Slice(st.Gamma.GammaA, func(i, j int) bool { return bytes.Compare(st.Gamma.GammaA[i].ID[:], st.Gamma.GammaA[j].ID[:]) < 0 })
	}
	st.Alpha = make(types.AuthPools, types.CoresCount)
	st.Varphi = make(types.AuthQueues, types.CoresCount)
	// half of the histories: the same authorizers sit in the pools and queues of every core, so that guarantees
	// for different cores in one block can use the same authorizer hash
	g.sharedAuthorizers = t.Prob(1, 2, "shared_authorizers")
	for c := 0; c < types.CoresCount; c++ {
		cb := byte(c)
		if g.sharedAuthorizers {
			cb = 0
		}
		n := t.Choose(types.AuthPoolMaxSize+1, "pool")
		for i := 0; i < n; i++ {
			st.Alpha[c] = append(st.Alpha[c], types.AuthorizerHash(h256([]byte{cb, byte(i % 3), 0xA1}))) // duplicates on purpose
		}
		if st.Alpha[c] == nil {
			st.Alpha[c] = types.AuthPool{}
		}
		st.Varphi[c] = make(types.AuthQueue, types.AuthQueueSize)
		for i := range st.Varphi[c] {
			st.Varphi[c][i] = types.AuthorizerHash(h256([]byte{cb, byte(i), 0xB2}))
		}
	}
	st.Beta.History = types.BlocksHistory{}
	// a node may be started from a snapshot of a chain that has lived long: a full recent-history list and an
	// accumulation-output mountain range with many slots (after n blocks it has floor(log2 n)+1 of them, some empty)
	if t.Prob(1, 3, "long_lived_chain_snapshot") {
		nSlots := []int{3, 8, 9, 10, 17, 24, 33}[t.Choose(7, "belt_slots")]
		for i := 0; i < nSlots; i++ {
			if i == nSlots-1 || t.Prob(2, 3, "belt_slot_occupied") {
				h := h256([]byte{byte(i), 0xBE}, t.Bytes(2, "belt_peak"))
				st.Beta.Mmr.Peaks = append(st.Beta.Mmr.Peaks, &h)
			} else {
				st.Beta.Mmr.Peaks = append(st.Beta.Mmr.Peaks, nil)
			}
		}
		nHist := []int{types.MaxBlocksHistory, types.MaxBlocksHistory, types.MaxBlocksHistory - 1, 3}[t.Choose(4, "history_prefill")]
		for i := 0; i < nHist; i++ {
			e := types.BlockInfo{HeaderHash: types.HeaderHash(h256([]byte{byte(i), 0xB1})), BeefyRoot: h256([]byte{byte(i), 0xB2}), StateRoot: types.StateRoot(h256([]byte{byte(i), 0xB3})), Reported: []types.ReportedWorkPackage{}}
			for k := 0; k < t.Choose(3, "history_reported"); k++ {
				e.Reported = append(e.Reported, types.ReportedWorkPackage{Hash: types.WorkReportHash(h256([]byte{byte(i), byte(k), 0xB4})), ExportsRoot: types.ExportsRoot(h256([]byte{byte(i), byte(k), 0xB5}))})
			}
			sort.Slice(e.Reported, func(a, b int) bool { return bytes.Compare(e.Reported[a].Hash[:], e.Reported[b].Hash[:]) < 0 })
			st.Beta.History = append(st.Beta.History, e)
		}
		g.longLived = true
	}
	st.Rho = make(types.AvailabilityAssignments, types.CoresCount)
	st.Tau = types.TimeSlot(t.Choose(3, "tau0") * (types.EpochLength - 1))
	// the history may start late in the life of a chain: just below a multiple of the authorizer-queue length,
	// beyond 2^31, close to the end of the 32-bit slot range (slot arithmetic, epoch numbers, queue indices)
	if t.Prob(1, 3, "late_genesis_slot") {
		st.Tau = types.TimeSlot([]uint32{75, 959, 1000007, 1 << 31, 1<<31 - 3, 1<<32 - 5000}[t.Choose(6, "tau0_late")])
		g.lateSlot = true
	}
	st.Pi.ValsCurr = make(types.ValidatorsStatistics, types.ValidatorsCount)
	st.Pi.ValsLast = make(types.ValidatorsStatistics, types.ValidatorsCount)
	st.Pi.Cores = make(types.CoresStatistics, types.CoresCount)
	st.Pi.Services = types.ServicesStatistics{}
	// a node may be started from a snapshot whose activity statistics hold large numbers (gas totals beyond 2^32,
	// counters at the top of their range): they are exported and imported like everything else
	if t.Prob(1, 2, "genesis_statistics") {
		big32 := func() types.U32 {
			return []types.U32{0, 1, 127, 128, 1 << 14, 1<<21 - 1, 1 << 28, 1<<32 - 1}[t.Choose(8, "stat32")]
		}
		big16 := func() types.U16 { return []types.U16{0, 1, 127, 128, 1 << 14, 1<<16 - 1}[t.Choose(6, "stat16")] }
		big64 := func() types.Gas {
			return []types.Gas{0, 1, 1<<32 - 1, 1 << 32, 1<<32 + 7, 5_000_000_000, 1 << 56, 1<<64 - 1}[t.Choose(8, "stat64")]
		}
		for i := range st.Pi.ValsCurr {
			st.Pi.ValsCurr[i] = types.ValidatorActivityRecord{Blocks: big32(), Tickets: big32(), PreImages: big32(), PreImagesSize: big32(), Guarantees: big32(), Assurances: big32()}
			st.Pi.ValsLast[i] = types.ValidatorActivityRecord{Blocks: big32(), Tickets: big32(), PreImages: big32(), PreImagesSize: big32(), Guarantees: big32(), Assurances: big32()}
		}
		for c := range st.Pi.Cores {
			st.Pi.Cores[c] = types.CoreActivityRecord{DALoad: big32(), Popularity: big16(), Imports: big16(), ExtrinsicCount: big16(), ExtrinsicSize: big32(), Exports: big16(), BundleSize: big32(), GasUsed: big64()}
		}
		for k := 0; k < t.Choose(4, "nstat_services"); k++ {
			sid := types.ServiceID([]uint32{0, 255, 70000, 0xFFFFFFFF, 0x00200001}[t.Choose(5, "stat_service")])
			st.Pi.Services[sid] = types.ServiceActivityRecord{ProvidedCount: big16(), ProvidedSize: big32(), RefinementCount: big32(), RefinementGasUsed: big64(), Imports: big32(),
				ExtrinsicCount: big32(), ExtrinsicSize: big32(), Exports: big32(), AccumulateCount: big32(), AccumulateGasUsed: big64()}
		}
		g.bigStatistics = true
	}
	st.Vartheta = make(types.ReadyQueue, types.EpochLength)
	st.Xi = make(types.AccumulatedQueue, types.EpochLength)
	for i := 0; i < types.EpochLength; i++ {
		st.Vartheta[i] = types.ReadyQueueItem{}
		st.Xi[i] = types.AccumulatedQueueItem{}
	}
	st.Theta = types.LastAccOut{}
	st.Psi = types.DisputesRecords{Good: []types.WorkReportHash{}, Bad: []types.WorkReportHash{}, Wonky: []types.WorkReportHash{}, Offenders: []types.Ed25519Public{}}
	st.Chi = types.Privileges{Assign: make(types.ServiceIDList, types.CoresCount), AlwaysAccum: types.AlwaysAccumulateMap{}}
	st.Delta = types.ServiceAccountState{}
	nSvc := t.Range(1, 3, "nsvc")
	// a POPULOUS state: hundreds of services, hundreds of entries under one service, values and preimages of tens of
	// KiB, long storage keys, long judgement and statistics lists. Nothing in it takes part in the history; it is there
	// so that every export, import, root computation, key-value walk and cache of the node under test meets counts
	// and sizes beyond what the two or three active services produce (batch sizes, 8/16-bit counters, buffer reuse)
	populous := t.Prob(1, 8, "populous_state")
	// service identifiers of every magnitude and octet pattern: state keys interleave the identifier's octets
	// with hash octets (255 makes a service's storage keys look like service-info keys up to the trailing
	// octets), and code that derives cache keys or orderings from an identifier must not depend on its size
	idPool := []types.ServiceID{255, 0, 1, 11, 16, 0x00010203, 256, 0xFF00, 0xFFFF, 65536, 0x00FF00FF, 0xFF0000FF, 0x00200001, 0x9C000004, 0xFFFFFFFE, 0xFFFFFFFF, 254}
	oddIDs := t.Prob(2, 3, "odd_service_ids")
	for i := 0; i < nSvc; i++ {
		id := types.ServiceID(70000 + 11*i)
		if oddIDs && t.Prob(2, 3, "odd_service_id") {
			k := t.Pick([]int{6, 1, 1, 2, 2, 1, 1, 1, 1, 1, 1, 1, 1, 1, 1, 1, 1}, "service_id_from_pool")
			for tries := 0; tries < len(idPool); tries++ {
				dup := false
				for _, x := range g.svcIDs {
					dup = dup || x == idPool[k]
				}
				if !dup {
					break
				}
				k = (k + 1) % len(idPool)
			}
			id = idPool[k]
			g.specialIDs++
		}
		g.svcIDs = append(g.svcIDs, id)
	}
	if nSvc > 1 && t.Prob(1, 3, "shared_solicited_blob") {
		g.sharedBlob = []byte("m-a-blob-several-services-solicit-" + string(t.Bytes(2, "shared_blob")))
	}
	for i := 0; i < nSvc; i++ {
		id := g.svcIDs[i]
		// the service's accumulation code
		prog := &svcProgram{id: id, assign: -1, yield: t.Prob(2, 3, "svc_yields")}
		if t.Prob(1, 2, "svc_assigns") {
			prog.assign = i % types.CoresCount // service i is the assigner of core i mod C (see χ below)
		}
		if nSvc > 1 && t.Prob(1, 2, "svc_transfers") {
			for k := 0; k < 1+t.Choose(2, "svc_nx"); k++ {
				prog.xfers = append(prog.xfers, svcXfer{dest: g.svcIDs[(i+1+t.Choose(nSvc-1, "svc_dest"))%nSvc], amt: uint64(1 + t.Choose(20, "svc_amt")), gas: uint64(2000 + 500*t.Choose(3, "svc_tgas"))})
			}
		}
		prog.creates = t.Prob(1, 3, "svc_creates_services")
		if t.Prob(1, 2, "svc_cycles_a_preimage") {
			prog.cycle = []byte(fmt.Sprintf("cycled-preimage-of-%d-%s", id, string(t.Bytes(2, "cycle_blob"))))
			g.solicited[id] = append(g.solicited[id], prog.cycle) // the author provides it whenever it is solicited and missing
		}
		prog.meta = encodeMetaCode(buildSvcProgram(prog, g.svcIDs))
		prog.codeH = h256(prog.meta)
		g.programs[id] = prog
		ac := types.ServiceAccount{PreimageLookup: types.PreimagesMapEntry{}, LookupDict: types.LookupMetaMapEntry{}, StorageDict: types.Storage{}}
		// a stored preimage with its lookup entry, storage entries, and solicited-but-unprovided preimages
		stored := []byte(fmt.Sprintf("stored-preimage-of-%d", id))
		ac.PreimageLookup[h256(stored)] = stored
		ac.LookupDict[types.LookupMetaMapkey{Hash: h256(stored), Length: types.U32(len(stored))}] = types.TimeSlotSet{1}
		ac.PreimageLookup[prog.codeH] = append(types.ByteSequence(nil), prog.meta...)
		ac.LookupDict[types.LookupMetaMapkey{Hash: prog.codeH, Length: types.U32(len(prog.meta))}] = types.TimeSlotSet{0}
		// a well-formed state may also hold a stored preimage whose lookup entry lists no slot, two or three slots
		// (a node only gets there through SetState / an imported snapshot): exported and re-imported like any other
		if t.Prob(1, 2, "odd_lookup") {
			for k, slots := range []types.TimeSlotSet{{}, {2, 5}, {2, 5, 9}} {
				if k > 0 && !t.Bool("odd_lookup_more") {
					continue
				}
				blob := []byte(fmt.Sprintf("odd-preimage-%d-%d", id, k))
				ac.PreimageLookup[h256(blob)] = blob
				ac.LookupDict[types.LookupMetaMapkey{Hash: h256(blob), Length: types.U32(len(blob))}] = slots
			}
		}
		nStorage := t.Choose(3, "nstorage")
		for k := 0; k < nStorage; k++ {
			ac.StorageDict[fmt.Sprintf("key-%d", k)] = types.ByteSequence(fmt.Sprintf("value-%d-%d", id, k))
		}
		// a storage entry whose STATE key has a chosen second octet (0x00 / 0xff: with a small first octet such a key
		// looks like the key of a state component up to the following octets); the storage key is found by search
		if t.Prob(1, 3, "storage_key_with_special_octet") {
			want := []byte{0x00, 0xff, 0x00}[t.Choose(3, "special_octet")]
			for n := 0; n < 4000; n++ {
				sk := fmt.Sprintf("special-%d", n)
				if kv := merklization.WrapEncodeDelta2KeyVal(id, types.ByteSequence(sk), nil); kv.Key[1] == want {
					ac.StorageDict[sk] = types.ByteSequence(fmt.Sprintf("v%d", n))
					g.specialKeys++
					break
				}
			}
		}
		// two storage entries whose STATE keys agree in their first eight octets (the four identifier octets interleaved
		// with four hash octets): deep in the trie they share a long path, and anything that abbreviates a key to a
		// machine word cannot tell them apart. Found once per process by a birthday search over ~10^5 keys.
		if i == 0 && t.Prob(1, 8, "storage_keys_sharing_an_8_octet_prefix") {
			if a, b := collidingStorageKeys(); a != "" {
				ka := merklization.WrapEncodeDelta2KeyVal(id, types.ByteSequence(a), nil).Key
				kb := merklization.WrapEncodeDelta2KeyVal(id, types.ByteSequence(b), nil).Key
				if bytes.Equal(ka[:8], kb[:8]) && ka != kb {
					ac.StorageDict[a] = types.ByteSequence("first of two entries with a common state-key prefix")
					ac.StorageDict[b] = types.ByteSequence("second")
					g.prefixTwins = true
				}
			}
		}
		// one blob may be wanted by several services at once (each is served separately)
		if g.sharedBlob != nil {
			g.solicited[id] = append(g.solicited[id], g.sharedBlob)
			ac.LookupDict[types.LookupMetaMapkey{Hash: h256(g.sharedBlob), Length: types.U32(len(g.sharedBlob))}] = types.TimeSlotSet{}
		}
		// MANY requests at once (one history in six, first service): the author then provides dozens to hundreds of
		// blobs in one extrinsic - lists longer than any batch or chunk size an implementation may work in
		if i == 0 && t.Prob(1, 6, "many_solicited") {
			n := []int{140, 200, 300}[t.Choose(3, "many_solicited_n")]
			for k := 0; k < n; k++ {
				blob := []byte(fmt.Sprintf("%c-one-of-many-solicited-%d-%d", 'a'+byte(k*7%26), id, k))
				g.solicited[id] = append(g.solicited[id], blob)
				ac.LookupDict[types.LookupMetaMapkey{Hash: h256(blob), Length: types.U32(len(blob))}] = types.TimeSlotSet{}
			}
			g.manySolicited = n
		}
		nSolicited := t.Range(1, 4, "nsolicited")
		for k := 0; k < nSolicited; k++ {
			// the first octet is free: the order of blobs must not follow the order of the services that want them
			blob := []byte(fmt.Sprintf("%c-solicited-%d-%d-%s", 'a'+byte(t.Choose(26, "blob_first")), id, k, string(t.Bytes(2, "blob"))))
			g.solicited[id] = append(g.solicited[id], blob)
			ac.LookupDict[types.LookupMetaMapkey{Hash: h256(blob), Length: types.U32(len(blob))}] = types.TimeSlotSet{}
		}
		if populous && i == 0 {
			for k := 0; k < []int{40, 255, 256, 300}[t.Choose(4, "populous_storage_entries")]; k++ {
				ac.StorageDict[fmt.Sprintf("bulk-%d", k)] = types.ByteSequence(fmt.Sprintf("bulk-value-%d", k))
			}
			big := bytes.Repeat([]byte{0xB1, 0x6B, 0x10, 0xB5}, []int{1024, 16384, 16385, 25000}[t.Choose(4, "populous_value_words")])
			ac.StorageDict["big-value"] = types.ByteSequence(big)
			ac.StorageDict[strings.Repeat("long-storage-key/", 1+t.Choose(40, "populous_key_reps"))] = types.ByteSequence("v")
			blob := append([]byte(fmt.Sprintf("big-preimage-of-%d", id)), big...)
			ac.PreimageLookup[h256(blob)] = blob
			ac.LookupDict[types.LookupMetaMapkey{Hash: h256(blob), Length: types.U32(len(blob))}] = types.TimeSlotSet{types.TimeSlot(1<<32 - 1)}
		}
		var items uint64
		var octets uint64
		for k, v := range ac.StorageDict {
			items++
			octets += 34 + uint64(len(k)) + uint64(len(v))
		}
		for k := range ac.LookupDict {
			items += 2
			octets += 81 + uint64(k.Length)
		}
		ac.ServiceInfo = types.ServiceInfo{CodeHash: prog.codeH, Balance: types.U64(100 + 10*items + octets + 100000000), MinItemGas: 10, MinMemoGas: 10, Items: types.U32(items), Bytes: types.U64(octets)}
		if t.Prob(1, 2, "service_info_extremes") {
			// fields no transition of these histories depends on, at the edges of their ranges
			ac.ServiceInfo.Balance = []types.U64{1 << 40, 1<<63 - 1, 1<<64 - 1 - 1000000}[t.Choose(3, "balance_big")]
			ac.ServiceInfo.CreationSlot = types.TimeSlot([]uint32{0, 1, 1 << 31, 1<<32 - 1}[t.Choose(4, "creation_slot")])
			ac.ServiceInfo.LastAccumulationSlot = types.TimeSlot([]uint32{0, 1, 1 << 31, 1<<32 - 1}[t.Choose(4, "last_acc_slot")])
			ac.ServiceInfo.ParentService = types.ServiceID([]uint32{0, 255, 1 << 31, 1<<32 - 1}[t.Choose(4, "parent_service")])
			ac.ServiceInfo.MinMemoGas = []types.Gas{10, 1 << 32, 1<<64 - 1}[t.Choose(3, "memo_gas")]
		}
		st.Delta[id] = ac
	}
	if populous {
		g.populous = []int{40, 130, 257, 300}[t.Choose(4, "populous_services")]
		noCode := h256([]byte("code of an inert service: never provided"))
		for i := 0; i < g.populous; i++ {
			id := types.ServiceID(500000 + 251*i) // crosses octet boundaries of the identifier
			if _, taken := st.Delta[id]; taken {
				continue
			}
			ac := types.ServiceAccount{PreimageLookup: types.PreimagesMapEntry{}, LookupDict: types.LookupMetaMapEntry{}, StorageDict: types.Storage{}}
			blob := []byte(fmt.Sprintf("preimage-of-inert-service-%d", i))
			ac.PreimageLookup[h256(blob)] = blob
			ac.LookupDict[types.LookupMetaMapkey{Hash: h256(blob), Length: types.U32(len(blob))}] = types.TimeSlotSet{types.TimeSlot(i)}
			items, octets := uint64(2), 81+uint64(len(blob))
			if i%7 == 0 {
				k, v := fmt.Sprintf("k%d", i), fmt.Sprintf("value-of-inert-%d", i)
				ac.StorageDict[k] = types.ByteSequence(v)
				items, octets = items+1, octets+34+uint64(len(k))+uint64(len(v))
			}
			ac.ServiceInfo = types.ServiceInfo{CodeHash: noCode, Balance: types.U64(100 + 10*items + octets + uint64(i)), MinItemGas: 10, MinMemoGas: 10, Items: types.U32(items), Bytes: types.U64(octets),
				CreationSlot: types.TimeSlot(i), ParentService: types.ServiceID(i)}
			st.Delta[id] = ac
			if i%3 == 0 {
				st.Pi.Services[id] = types.ServiceActivityRecord{ProvidedCount: types.U16(i), ProvidedSize: types.U32(i * 1000), AccumulateCount: types.U32(i), AccumulateGasUsed: types.Gas(i) << 30}
			}
		}
		// long judgement lists (sorted, as the transition keeps them)
		nj := []int{40, 255, 256, 300}[t.Choose(4, "populous_judgements")]
		for i := 0; i < nj; i++ {
			st.Psi.Good = append(st.Psi.Good, types.WorkReportHash(h256([]byte{byte(i), byte(i >> 8), 0x60})))
			st.Psi.Bad = append(st.Psi.Bad, types.WorkReportHash(h256([]byte{byte(i), byte(i >> 8), 0xBA})))
			st.Psi.Wonky = append(st.Psi.Wonky, types.WorkReportHash(h256([]byte{byte(i), byte(i >> 8), 0x30})))
		}
		for _, l := range []*[]types.WorkReportHash{&st.Psi.Good, &st.Psi.Bad, &st.Psi.Wonky} {
			sort.Slice(*l, func(a, b int) bool { return bytes.Compare((*l)[a][:], (*l)[b][:]) < 0 })
		}
	}
	st.Chi.Bless, st.Chi.Designate, st.Chi.CreateAcct = g.svcIDs[0], g.svcIDs[0], g.svcIDs[0]
	// an always-accumulate service runs in every block, with or without work items (its gas allowance may be large)
	if t.Prob(1, 3, "always_accumulate_service") {
		sid := g.svcIDs[t.Choose(len(g.svcIDs), "always_acc_service")]
		st.Chi.AlwaysAccum[sid] = []types.Gas{60000, 250000, 1<<32 + 5}[t.Choose(3, "always_acc_gas")]
		g.alwaysAcc = true
	}
	for c := range st.Chi.Assign {
		st.Chi.Assign[c] = g.svcIDs[c%len(g.svcIDs)]
	}
	// a node may be started from a snapshot taken in the middle of the reports pipeline: packages in the accumulated
	// history (every position, also the oldest), reports waiting in the ready queue (every position), reports pending
	// on cores - with dependencies on old, queued, unknown or not-yet-accumulated packages
	if t.Prob(1, 2, "pipeline_snapshot") {
		mkReport := func(tag string, c int, deps []types.WorkPackageHash) types.WorkReport {
			var w types.WorkReport
			w.PackageSpec.Hash = types.WorkPackageHash(h256([]byte("genesis-package-" + tag)))
			w.PackageSpec.Length = types.U32(50 + t.Choose(500, "snap_len"))
			w.PackageSpec.ExportsRoot = types.ExportsRoot(h256(w.PackageSpec.Hash[:], []byte("exports")))
			w.PackageSpec.ExportsCount = types.U16(t.Choose(3, "snap_exports"))
			w.CoreIndex = types.CoreIndex(c)
			w.AuthOutput = types.ByteSequence{}
			w.Context.Prerequisites = []types.OpaqueHash{}
			w.SegmentRootLookup = types.SegmentRootLookup{}
			for _, d := range deps {
				if t.Prob(1, 3, "snap_dep_is_lookup") {
					w.SegmentRootLookup = append(w.SegmentRootLookup, types.SegmentRootLookupItem{WorkPackageHash: d, SegmentTreeRoot: h256(d[:], []byte("exports"))})
				} else {
					w.Context.Prerequisites = append(w.Context.Prerequisites, types.OpaqueHash(d))
				}
			}
			sid := g.svcIDs[t.Choose(len(g.svcIDs), "snap_svc")]
			w.Results = []types.WorkResult{{ServiceID: sid, CodeHash: g.programs[sid].codeH, PayloadHash: h256([]byte(tag)), AccumulateGas: types.Gas(50000),
				Result: types.WorkExecResult{Type: types.WorkExecResultOk, Data: []byte{1}}}}
			return w
		}
		var old []types.WorkPackageHash // accumulated long ago or recently
		for i := 0; i < types.EpochLength; i++ {
			if i == 0 || t.Prob(1, 3, "snap_xi") {
				h := types.WorkPackageHash(h256([]byte{byte(i), 0x51}))
				st.Xi[i] = append(st.Xi[i], h)
				old = append(old, h)
			}
		}
		unknown := types.WorkPackageHash(h256([]byte("never reported")))
		pickDeps := func(extra []types.WorkPackageHash) []types.WorkPackageHash {
			pool := append(append([]types.WorkPackageHash{unknown}, old...), extra...)
			var deps []types.WorkPackageHash
			seen := map[types.WorkPackageHash]bool{}
			for k := 0; k < t.Choose(3, "snap_ndeps"); k++ {
				d := pool[t.Choose(len(pool), "snap_dep")]
				if k == 0 && t.Prob(1, 3, "snap_dep_oldest") {
					d = old[0] // the package in the oldest entry of the accumulated history
				}
				if !seen[d] {
					seen[d] = true
					deps = append(deps, d)
				}
			}
			return deps
		}
		var pendingPkgs []types.WorkPackageHash
		for c := 0; c < types.CoresCount; c++ {
			if t.Prob(2, 3, "snap_pending") {
				w := mkReport(fmt.Sprintf("pending-%d", c), c, pickDeps(pendingPkgs))
				back := types.TimeSlot(t.Choose(4, "snap_assigned_back"))
				if back > st.Tau {
					back = st.Tau
				}
				st.Rho[c] = &types.AvailabilityAssignment{Report: w, AssignedSlot: st.Tau - back}
				pendingPkgs = append(pendingPkgs, w.PackageSpec.Hash)
			}
		}
		for i := 0; i < types.EpochLength; i++ {
			if t.Prob(1, 4, "snap_queued") {
				deps := pickDeps(pendingPkgs)
				var live []types.WorkPackageHash
				for _, d := range deps { // a kept queue entry never waits for something already accumulated
					isOld := false
					for _, o := range old {
						if o == d {
							isOld = true
						}
					}
					if !isOld {
						live = append(live, d)
					}
				}
				if len(live) == 0 {
					live = []types.WorkPackageHash{unknown}
				}
				w := mkReport(fmt.Sprintf("queued-%d", i), i%types.CoresCount, live)
				st.Vartheta[i] = append(st.Vartheta[i], types.ReadyRecord{Report: w, Dependencies: live})
			}
		}
		// a DEEP chain waiting in the ready queue (more than one epoch's worth of links: each slot can hold one report per
		// core and those may depend on each other): link k waits for link k-1, the first link waits for a package that
		// is pending on a core and becomes available when enough assurances arrive - then the whole chain resolves in
		// one block
		if len(pendingPkgs) > 0 && t.Prob(1, 3, "snap_deep_chain") {
			depth := []int{13, 14, 15, 24}[t.Choose(4, "snap_chain_depth")]
			prev := pendingPkgs[0]
			for k := 0; k < depth; k++ {
				// the slots that are overwritten last: positions just behind the current slot index
				_, m := epochOf(st.Tau)
				pos := (int(m) + types.EpochLength - (k/2)%(types.EpochLength-2)) % types.EpochLength
				w := mkReport(fmt.Sprintf("chain-%d", k), k%types.CoresCount, []types.WorkPackageHash{prev})
				st.Vartheta[pos] = append(st.Vartheta[pos], types.ReadyRecord{Report: w, Dependencies: []types.WorkPackageHash{prev}})
				prev = w.PackageSpec.Hash
			}
			g.deepChain = depth
		}
	}
	kvs, err := merklization.StateEncoder(*st)
	if err != nil {
		panic("StateEncoder(genesis): " + err.Error())
	}
	g.kvs = kvs
	g.header = types.Header{Slot: st.Tau}
	g.header.OffendersMark = types.OffendersMark{}
	return g
}

var twinKeys struct {
	once sync.Once
	a, b string
}

// collidingStorageKeys returns two storage keys whose state keys (for any one service) agree in the first eight octets.
func collidingStorageKeys() (string, string) {
	twinKeys.once.Do(func() {
		seen := make(map[[8]byte]int32, 1<<17)
		for n := 0; n < 1500000; n++ {
			kv := merklization.WrapEncodeDelta2KeyVal(1, types.ByteSequence(fmt.Sprintf("item-%d", n)), nil)
			var p [8]byte
			copy(p[:], kv.Key[:8])
			if m, ok := seen[p]; ok {
				twinKeys.a, twinKeys.b = fmt.Sprintf("item-%d", m), fmt.Sprintf("item-%d", n)
				return
			}
			seen[p] = int32(n)
		}
	})
	return twinKeys.a, twinKeys.b
}
