//go:build verif

package h4chain_test

import (
	"bufio"
	"bytes"
	"encoding/binary"
	"encoding/json"
	"fmt"
	"io"
	"os"
	"os/exec"
	"runtime"
	"runtime/debug"
	"strings"
	"testing"
	"time"

	"github.com/New-JAMneration/JAM-Protocol/internal/fuzz"
	"github.com/New-JAMneration/JAM-Protocol/internal/types"
	"github.com/New-JAMneration/JAM-Protocol/internal/zzverif/sim"
)

// C14 transport arm: frames of a real fuzz-protocol session (SetState with the genesis export,
// ImportBlock with author-built blocks, GetState, State, StateRoot, PeerInfo, Error) are damaged
// in flight – bit flips, byte insert/delete, truncation + close, length-prefix edits, garbage
// frames, unknown message types – and delivered in tape-chosen fragments to the stream reader.
// Oracle: no Go panic; memory allocated while reading one frame <= allocFactor·(bytes delivered) + 1 MiB.
// allocFactor: a decoder may size a sequence by its (bounded) length prefix before reading the
// elements, so the constant must cover the largest in-memory element per input octet of the types that
// travel on this wire (a ticket envelope is 792 bytes); 1024 leaves headroom and still separates that
// from prefix-driven allocations, which are 10^5 .. 10^9 times the input.
const allocFactor = 1024

type chunkReader struct {
	data   []byte
	chunks []int
	pos    int
	reads  int
}

func (c *chunkReader) Read(p []byte) (int, error) {
	if c.pos >= len(c.data) {
		return 0, io.EOF
	}
	n := len(p)
	if len(c.chunks) > 0 {
		k := c.chunks[c.reads%len(c.chunks)]
		if k < n {
			n = k
		}
	}
	if n > len(c.data)-c.pos {
		n = len(c.data) - c.pos
	}
	if n == 0 {
		n = 1
	}
	copy(p, c.data[c.pos:c.pos+n])
	c.pos += n
	c.reads++
	return n, nil
}

func frameOf(m *fuzz.Message) []byte {
	b, err := m.MarshalBinary()
	if err != nil {
		panic("marshal message: " + err.Error())
	}
	return b
}

func runTransport(r *sim.Run) {
	t := r.T
	ru := &run{r: r, t: t, a: newAuthor()}
	ru.g = mkGenesis(t)
	scratch, root0, err := ru.freshNode()
	if err != nil {
		if strings.HasPrefix(err.Error(), "PANIC in ") {
			// the session's first message - a well-formed state - already makes the node panic: "never panic" covers
			// well-formed input too
			r.Violate("C14", "crash", "panic-on-well-formed-SetState", "the node panicked on the SetState message of a well-formed generated state (services %v): %v", ru.g.svcIDs, err)
			return
		}
		panic(err)
	}
	gh := headerHash(ru.g.header)
	kv0, _ := scratch.getState(gh)
	ru.gen = &chainBlock{hash: gh, valid: true, oracleDone: true, accepted: true, root: root0, kvs: kv0, state: parseState(kv0)}
	ru.gen.block.Header = ru.g.header
	// a short real session
	var frames [][]byte
	var names []string
	discr := map[int][]int{} // frame index -> offsets (in the frame) of union tags / option flags / boolean octets
	ss := fuzz.SetState{Header: ru.g.header, State: ru.g.kvs, Ancestry: types.Ancestry{{Slot: 1, HeaderHash: gh}}}
	frames, names = append(frames, frameOf(&fuzz.Message{Type: fuzz.MessageType_SetState, SetState: &ss})), append(names, "SetState")
	head := ru.gen
	for i := 0; i < 1+t.Choose(3, "nblocks"); i++ {
		plan := ru.planBlock(head)
		b, err := ru.a.build(head, plan)
		if err != nil {
			continue
		}
		root, err := scratch.importBlock(b)
		if err != nil {
			continue
		}
		cb := &chainBlock{block: b, hash: headerHash(b.Header), parent: head, depth: head.depth + 1, root: root}
		kvs, _ := scratch.getState(cb.hash)
		cb.kvs, cb.state = kvs, parseState(kvs)
		if cb.state == nil {
			break
		}
		ib := fuzz.ImportBlock(b)
		frames, names = append(frames, frameOf(&fuzz.Message{Type: fuzz.MessageType_ImportBlock, ImportBlock: &ib})), append(names, "ImportBlock")
		discr[len(frames)-1] = discriminatorOffsets(b)
		head = cb
	}
	gs := fuzz.GetState(head.hash)
	frames, names = append(frames, frameOf(&fuzz.Message{Type: fuzz.MessageType_GetState, GetState: &gs})), append(names, "GetState")
	st := fuzz.State(head.kvs)
	frames, names = append(frames, frameOf(&fuzz.Message{Type: fuzz.MessageType_State, State: &st})), append(names, "State")
	sr := fuzz.StateRoot(head.root)
	frames, names = append(frames, frameOf(&fuzz.Message{Type: fuzz.MessageType_StateRoot, StateRoot: &sr})), append(names, "StateRoot")
	pi := fuzz.PeerInfo{FuzzVersion: 1, AppName: "verif-peer"}
	frames, names = append(frames, frameOf(&fuzz.Message{Type: fuzz.MessageType_PeerInfo, PeerInfo: &pi})), append(names, "PeerInfo")
	em := fuzz.ErrorMessage{Error: "some protocol error"}
	frames, names = append(frames, frameOf(&fuzz.Message{Type: fuzz.MessageType_ErrorMessage, Error: &em})), append(names, "Error")

	nFaults := 6 + t.Choose(10, "nfaults")
	for f := 0; f < nFaults && !r.Violated(); f++ {
		fi := t.Choose(len(frames), "frame")
		if t.Bool("prefer_block_frame") {
			// the ImportBlock frames carry the deepest structures
			var bf []int
			for i, n := range names {
				if n == "ImportBlock" {
					bf = append(bf, i)
				}
			}
			if len(bf) > 0 {
				fi = bf[t.Choose(len(bf), "block_frame")]
			}
		}
		data := append([]byte(nil), frames[fi]...)
		kind := ""
		// positions that look like a length prefix or a discriminator: small values (the structures on this wire
		// hold short sequences between 32-byte hashes of high entropy)
		smallPos := func() int {
			var c []int
			for i := 5; i < len(data); i++ {
				if data[i] > 0x10 {
					continue
				}
				// not inside a long run of equal octets (zero padding of signatures and keys)
				run := 1
				for j := i - 1; j >= 5 && data[j] == data[i] && run < 6; j-- {
					run++
				}
				for j := i + 1; j < len(data) && data[j] == data[i] && run < 6; j++ {
					run++
				}
				if run < 6 {
					c = append(c, i)
				}
			}
			if len(c) == 0 || t.Prob(1, 4, "any_pos") {
				return 5 + t.Choose(len(data)-5, "pos")
			}
			return c[t.Choose(len(c), "small_pos")]
		}
		switch t.Pick([]int{5, 3, 3, 4, 3, 2, 2, 4, 4, 3, 4, 4}, "corruption") {
		case 11:
			kind = "compact-integer-truncated"
			// a multi-octet compact integer (first octet 0x80..0xff announces 1..8 more octets) whose tail is cut off by
			// the end of the frame - at the string length prefix of an Error / PeerInfo frame, or at any small octet
			if t.Bool("truncate_in_string_frame") {
				var sf []int
				for i, n := range names {
					if n == "Error" || n == "PeerInfo" {
						sf = append(sf, i)
					}
				}
				fi = sf[t.Choose(len(sf), "string_frame")]
				data = append([]byte(nil), frames[fi]...)
			}
			p := smallPos()
			switch names[fi] {
			case "Error":
				p = 5
			case "PeerInfo":
				p = 5 + 11 // fuzz version, features, two versions
			}
			if p >= len(data) {
				p = len(data) - 1
			}
			first := []byte{0x80, 0xbf, 0xc0, 0xe0, 0xf0, 0xf8, 0xfc, 0xfe, 0xff}[t.Choose(9, "compact_first_octet")]
			need := 0
			for b := first; b&0x80 != 0; b <<= 1 {
				need++
			}
			data[p] = first
			keep := t.Choose(need, "octets_kept") // 0 .. need-1 of the announced octets survive
			if p+1+keep < len(data) {
				data = data[:p+1+keep]
			}
			binary.LittleEndian.PutUint32(data[:4], uint32(len(data)-4))
		case 10:
			kind = "discriminator-sweep"
			// a union tag, option flag or boolean octet of the structure (its offset is known: the harness built the
			// block) - or, failing that, any small octet - set to every small value in turn and to the extremes
			p := smallPos()
			if offs := discr[fi]; len(offs) > 0 && t.Prob(3, 4, "known_discriminator") {
				p = offs[t.Choose(len(offs), "which_discriminator")]
				r.Count("fault:stream_discriminator_at_known_offset", 1)
			}
			if v := t.Choose(22, "discriminator_value"); v < 18 {
				data[p] = byte(v)
			} else {
				data[p] = []byte{0x7f, 0x80, 0xfe, 0xff}[v-18]
			}
		case 0:
			kind = "bit-flip"
			for k := 0; k <= t.Choose(3, "nflips"); k++ {
				data[t.Choose(len(data), "pos")] ^= 1 << uint(t.Choose(8, "bit"))
			}
		case 1:
			kind = "byte-insert"
			p := 5 + t.Choose(len(data)-4, "pos")
			data = append(data[:p], append([]byte{byte(t.Choose(256, "val"))}, data[p:]...)...)
		case 2:
			kind = "byte-delete"
			if len(data) > 6 {
				p := 5 + t.Choose(len(data)-5, "pos")
				data = append(data[:p], data[p+1:]...)
			}
		case 3:
			kind = "length-prefix-edit"
			v := []uint32{0, 1, 2, 1 << 31, 1<<32 - 1, uint32(len(data)), uint32(len(data) + 1000), 1 << 24}[t.Choose(8, "lenval")]
			binary.LittleEndian.PutUint32(data[:4], v)
		case 4:
			kind = "truncate-and-close"
			data = data[:t.Choose(len(data), "cut")]
		case 5:
			kind = "garbage-frame"
			n := 1 + t.Choose(64, "glen")
			data = t.Bytes(n, "garbage")
		case 6:
			kind = "unknown-message-type"
			data[4] = byte(6 + t.Choose(249, "mtype"))
		case 7:
			kind = "inner-length-edit"
			// overwrite a few bytes: turns compact length prefixes inside the payload into huge values
			// (0xFF.. = 2^64-1; 0xFF + a 64-bit value with one high bit set = sizes that wrap when multiplied)
			p := smallPos()
			switch t.Choose(3, "inner_len_shape") {
			case 0:
				for k := 0; k < 1+t.Choose(9, "nff") && p+k < len(data); k++ {
					data[p+k] = 0xFF
				}
			case 1:
				for k := 0; k < 9 && p+k < len(data); k++ {
					data[p+k] = 0xFF
				}
			default:
				var v [9]byte
				v[0] = 0xFF
				binary.LittleEndian.PutUint64(v[1:], uint64(1)<<uint(40+t.Choose(24, "high_bit"))|uint64(t.Choose(300, "low")))
				for k := 0; k < 9 && p+k < len(data); k++ {
					data[p+k] = v[k]
				}
			}
		case 8:
			kind = "byte-set"
			// a discriminator / small length set to another small or extreme value
			p := smallPos()
			data[p] = []byte{0, 1, 2, 3, 4, 0x10, 0x3f, 0x40, 0x7f, 0x80, 0xbf, 0xc0, 0xfe, 0xff, data[p] + 1, data[p] - 1}[t.Choose(16, "setval")]
		case 9:
			kind = "payload-cut-length-fixed"
			// the frame stays well-formed (its length prefix is corrected) but the payload ends early or has a piece cut out
			if len(data) > 12 {
				p := 5 + t.Choose(len(data)-6, "cut_at")
				n := 1 + t.Choose(min(40, len(data)-p), "cut_len")
				if t.Bool("cut_tail") {
					data = data[:p]
				} else {
					data = append(data[:p], data[p+n:]...)
				}
				binary.LittleEndian.PutUint32(data[:4], uint32(len(data)-4))
			}
		}
		r.Count("fault:stream_"+kind, 1)
		var chunks []int
		for k := 0; k < t.Choose(4, "nchunks"); k++ {
			chunks = append(chunks, 1+t.Choose(37, "chunk"))
		}
		if len(chunks) > 0 {
			r.Count("fault:stream_fragmented_delivery", 1)
		}
		res := readInChild(data, chunks)
		if res.Died != "" {
			// the reader process did not survive the frame (Go cannot recover from a failed allocation)
			r.Violate("C14", "crash", "process-killed-reading-"+names[fi]+"-frame:"+kind, "reading a %s frame of %d bytes damaged by %s killed the process: %s; first bytes %x", names[fi], len(data), kind, res.Died, data[:min(16, len(data))])
			return
		}
		panicked, perr, allocated := res.Panicked, res.Panic, res.Allocated
		var rerr error
		if res.Err != "" {
			rerr = fmt.Errorf("%s", res.Err)
		}
		bound := uint64(allocFactor*len(data)) + 1<<20
		if panicked {
			r.Violate("C14", "panic", "panic-reading-"+names[fi]+"-frame:"+kind, "reading a %s frame of %d bytes damaged by %s raised a Go panic: %s", names[fi], len(data), kind, perr)
			return
		}
		if allocated > bound {
			r.Violate("C14", "allocation", "unbounded-allocation-reading-"+names[fi]+"-frame:"+kind, "reading a %s frame damaged by %s: %d bytes were delivered, %d bytes were allocated (bound 1024*len+1MiB = %d); first bytes %x", names[fi], kind, len(data), allocated, bound, data[:min(12, len(data))])
			return
		}
		if rerr == nil {
			r.Count("probe:damaged_frame_still_decodes", 1)
		} else {
			r.Count("probe:damaged_frame_rejected_with_error", 1)
		}
	}
	if len(frames) >= 6 {
		r.Nontrivial()
	}
	r.Summary("%d frames of a real session (%v), %d damaged deliveries", len(frames), names, nFaults)
}

// ---- reader process -------------------------------------------------------------------------------
// Frames are read in a long-lived child process (the same test binary, TestVerifC14Child): a frame that
// makes the decoder allocate beyond what the machine has ends in a Go fatal error, which no recover()
// can catch; the harness must survive that to report it.

type childResult struct {
	Panicked  bool   `json:"panicked"`
	Panic     string `json:"panic,omitempty"`
	Err       string `json:"err,omitempty"`
	Allocated uint64 `json:"allocated"`
	Died      string `json:"-"`
}

type childProc struct {
	cmd    *exec.Cmd
	in     io.WriteCloser
	out    *bufio.Reader
	stderr *bytes.Buffer
}

var child *childProc

func startChild() *childProc {
	cmd := exec.Command(os.Args[0], "-test.run", "^TestVerifC14Child$", "-test.count=1", "-test.timeout", "12h")
	cmd.Env = append(os.Environ(), "VERIF_C14_CHILD=1")
	in, _ := cmd.StdinPipe()
	out, _ := cmd.StdoutPipe()
	c := &childProc{cmd: cmd, in: in, out: bufio.NewReaderSize(out, 1<<16), stderr: &bytes.Buffer{}}
	cmd.Stderr = c.stderr
	if err := cmd.Start(); err != nil {
		panic("cannot start the reader process: " + err.Error())
	}
	return c
}

func readInChild(data []byte, chunks []int) childResult {
	if child == nil {
		child = startChild()
	}
	var hdr [8]byte
	binary.LittleEndian.PutUint32(hdr[0:], uint32(len(data)))
	binary.LittleEndian.PutUint32(hdr[4:], uint32(len(chunks)))
	msg := append([]byte(nil), hdr[:]...)
	for _, c := range chunks {
		msg = append(msg, byte(c))
	}
	msg = append(msg, data...)
	_, werr := child.in.Write(msg)
	type lineRes struct {
		line string
		err  error
	}
	ch := make(chan lineRes, 1)
	c := child
	go func() {
		for {
			l, err := c.out.ReadString('\n')
			if err != nil || strings.HasPrefix(l, "C14RESULT ") {
				ch <- lineRes{l, err}
				return
			}
		}
	}()
	var lr lineRes
	select {
	case lr = <-ch:
	case <-time.After(90 * time.Second):
		lr = lineRes{"", fmt.Errorf("no answer within 90 s")}
	}
	if werr != nil || lr.err != nil {
		// the child is gone (or stuck): collect why, start a new one next time
		c.cmd.Process.Kill()
		c.cmd.Wait()
		child = nil
		why := c.stderr.String()
		if i := strings.Index(why, "fatal error"); i >= 0 {
			why = why[i:]
		}
		if j := strings.Index(why, "\n"); j > 0 {
			why = why[:j]
		}
		if why == "" {
			why = fmt.Sprintf("%v / %v", werr, lr.err)
		}
		return childResult{Died: why}
	}
	var res childResult
	json.Unmarshal([]byte(strings.TrimPrefix(strings.TrimSpace(lr.line), "C14RESULT ")), &res)
	return res
}

// TestVerifC14Child is the reader process: frames arrive on stdin, one JSON result line per frame.
func TestVerifC14Child(t *testing.T) {
	if os.Getenv("VERIF_C14_CHILD") == "" {
		return
	}
	in := bufio.NewReaderSize(os.Stdin, 1<<16)
	out := os.Stdout
	for {
		var hdr [8]byte
		if _, err := io.ReadFull(in, hdr[:]); err != nil {
			return
		}
		n, nc := binary.LittleEndian.Uint32(hdr[0:]), binary.LittleEndian.Uint32(hdr[4:])
		cb := make([]byte, nc)
		io.ReadFull(in, cb)
		data := make([]byte, n)
		if _, err := io.ReadFull(in, data); err != nil {
			return
		}
		chunks := make([]int, nc)
		for i, c := range cb {
			chunks[i] = int(c)
		}
		rd := &chunkReader{data: data, chunks: chunks}
		var before, after runtime.MemStats
		runtime.ReadMemStats(&before)
		panicked, perr, rerr := readOne(rd)
		runtime.ReadMemStats(&after)
		res := childResult{Panicked: panicked, Panic: perr, Allocated: after.TotalAlloc - before.TotalAlloc}
		if rerr != nil {
			res.Err = rerr.Error()
		}
		if res.Allocated > 64<<20 {
			// give a huge (never touched) buffer back at once
			debug.FreeOSMemory()
		}
		b, _ := json.Marshal(res)
		fmt.Fprintf(out, "C14RESULT %s\n", b)
	}
}

func readOne(rd io.Reader) (panicked bool, perr string, err error) {
	defer func() {
		if v := recover(); v != nil {
			panicked = true
			st := debug.Stack()
			if i := bytes.Index(st, []byte("JAM-Protocol/internal")); i > 0 {
				st = st[i:]
			}
			if len(st) > 400 {
				st = st[:400]
			}
			perr = fmt.Sprintf("%v @ %s", v, st)
		}
	}()
	var m fuzz.Message
	_, err = m.ReadFrom(rd)
	return
}


// discriminatorOffsets finds, by differential encoding, where the one-octet discriminators of a block sit in its
// ImportBlock frame: for each of them a twin of the block is encoded in which only that discriminator has another
// (valid) value; the first octet in which the two encodings differ is the discriminator. Found: the execution-result
// tag of every work result, the presence flags of the epoch mark and the tickets mark, the vote octets of judgements
// and faults.
func discriminatorOffsets(b types.Block) []int {
	base, err := types.NewEncoder().Encode(&b)
	if err != nil {
		return nil
	}
	var out []int
	try := func(mut func(x *types.Block)) {
		x := cloneBlock(b)
		mut(&x)
		enc, err := types.NewEncoder().Encode(&x)
		if err != nil {
			return
		}
		n := len(base)
		if len(enc) < n {
			n = len(enc)
		}
		for i := 0; i < n; i++ {
			if enc[i] != base[i] {
				out = append(out, 5+i) // 4 octets of frame length, 1 of message type
				return
			}
		}
	}
	for gi := range b.Extrinsic.Guarantees {
		for ri := range b.Extrinsic.Guarantees[gi].Report.Results {
			gi, ri := gi, ri
			try(func(x *types.Block) {
				g := x.Extrinsic.Guarantees[gi]
				rs := append([]types.WorkResult(nil), g.Report.Results...)
				if rs[ri].Result.Type == types.WorkExecResultOk {
					rs[ri].Result = types.WorkExecResult{Type: types.WorkExecResultPanic}
				} else {
					rs[ri].Result = types.WorkExecResult{Type: types.WorkExecResultOk, Data: []byte{}}
				}
				g.Report.Results = rs
				gs := append(types.GuaranteesExtrinsic(nil), x.Extrinsic.Guarantees...)
				gs[gi] = g
				x.Extrinsic.Guarantees = gs
			})
		}
	}
	try(func(x *types.Block) {
		if x.Header.EpochMark == nil {
			x.Header.EpochMark = &types.EpochMark{Validators: make([]types.EpochMarkValidatorKeys, types.ValidatorsCount)}
		} else {
			x.Header.EpochMark = nil
		}
	})
	try(func(x *types.Block) {
		if x.Header.TicketsMark == nil {
			tm := make(types.TicketsMark, types.EpochLength)
			x.Header.TicketsMark = &tm
		} else {
			x.Header.TicketsMark = nil
		}
	})
	for vi := range b.Extrinsic.Disputes.Verdicts {
		for ji := range b.Extrinsic.Disputes.Verdicts[vi].Votes {
			vi, ji := vi, ji
			try(func(x *types.Block) {
				vs := append([]types.Verdict(nil), x.Extrinsic.Disputes.Verdicts...)
				js := append([]types.Judgement(nil), vs[vi].Votes...)
				js[ji].Vote = !js[ji].Vote
				vs[vi].Votes = js
				x.Extrinsic.Disputes.Verdicts = vs
			})
		}
	}
	for fi := range b.Extrinsic.Disputes.Faults {
		fi := fi
		try(func(x *types.Block) {
			fs := append([]types.Fault(nil), x.Extrinsic.Disputes.Faults...)
			fs[fi].Vote = !fs[fi].Vote
			x.Extrinsic.Disputes.Faults = fs
		})
	}
	return out
}
