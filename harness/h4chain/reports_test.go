//go:build verif

package h4chain_test

import (
	"bytes"
	"fmt"
	"sort"

	"github.com/New-JAMneration/JAM-Protocol/internal/extrinsic"
	"github.com/New-JAMneration/JAM-Protocol/internal/types"
	"github.com/New-JAMneration/JAM-Protocol/internal/zzverif/pvmasm"
)

// Stage B of the chain simulation: work reports travel through the whole pipeline –
// guaranteed (E_G), pending on a core (ρ), assured (E_A), available, queued behind their
// prerequisites (ϑ) or accumulated at once (real PVM runs of small generated service programs),
// remembered (ξ) – inside the same fault-injected block histories.
//
// As everywhere in the author: this is harness code, not an oracle. A block the author believes
// valid and a clean node rejects is counted as an author bug.

// ---- services with code -------------------------------------------------------------------------

type svcXfer struct {
	dest types.ServiceID
	amt  uint64
	gas  uint64
}

type svcProgram struct {
	id     types.ServiceID
	yield  bool
	assign int // core whose authorizer queue this service replaces when it accumulates (-1: none)
	xfers  []svcXfer
	// cycle: on every accumulation the service first forgets, then solicits one fixed preimage of its own. Over the
	// invocations (with the author providing the blob whenever it is solicited and missing) the lookup entry runs
	// through its whole life cycle: [] -> [x] -> [x,y] -> [x,y,z] -> (after D slots) [z,t] ...
	cycle []byte
	// creates: on every accumulation the service creates a new (code-less) service account; histories then hold
	// accounts that were born on chain, with identifiers the node derives itself
	creates bool
	meta   []byte // encoded (metadata, code)
	codeH  types.OpaqueHash
}

func u32le(v uint32) []byte { return []byte{byte(v), byte(v >> 8), byte(v >> 16), byte(v >> 24)} }

func encodeMetaCode(code []byte) []byte {
	mc := types.MetaCode{Metadata: types.ByteSequence("verif"), Code: types.ByteSequence(code)}
	b, err := types.NewEncoder().Encode(&mc)
	if err != nil {
		panic(err)
	}
	return b
}

// buildSvcProgram: fetch every incoming item (operands and transfers); write them under key "in"
// (what the service observed becomes state); checkpoint; optionally replace a core's authorizer
// queue; emit the planned transfers; optionally yield a hash; halt.
func buildSvcProgram(p *svcProgram, all []types.ServiceID) []byte {
	d := &pvmasm.Data{}
	a := pvmasm.New()
	const bufLen = 4096
	buf := d.Reserve(bufLen)
	key := d.Put([]byte("in"))
	a.LoadImm64(7, buf)
	a.LoadImm64(8, 0)
	a.LoadImm64(9, bufLen)
	a.LoadImm64(10, 14)
	a.Ecalli(1) // fetch(14): all items of this invocation
	a.MoveReg(10, 7)
	a.BranchEqImm8(10, 0xFF, 7+32+1) // nothing to fetch: skip the write
	a.LoadImm64(7, key)
	a.LoadImm64(8, 2)
	a.LoadImm64(9, buf)
	a.Ecalli(4) // write("in", buf[:len])
	a.Fallthrough()
	a.Ecalli(17) // checkpoint
	if p.assign >= 0 {
		q := make([]byte, 32*types.AuthQueueSize)
		for i := 0; i < types.AuthQueueSize; i++ {
			h := h256([]byte{byte(p.id), byte(p.assign), byte(i), 0xD4})
			copy(q[32*i:], h[:])
		}
		a.LoadImm64(7, uint64(p.assign))
		a.LoadImm64(8, d.Put(q))
		a.LoadImm64(9, uint64(p.id)) // stays the assigner of that core
		a.Ecalli(15)
	}
	for i, x := range p.xfers {
		memo := make([]byte, 128)
		copy(memo, u32le(uint32(p.id)))
		memo[4] = byte(i)
		a.LoadImm64(7, uint64(x.dest))
		a.LoadImm64(8, x.amt)
		a.LoadImm64(9, x.gas)
		a.LoadImm64(10, d.Put(memo))
		a.Ecalli(20)
	}
	if len(p.cycle) > 0 {
		h := h256(p.cycle)
		hp := d.Put(h[:])
		a.LoadImm64(7, hp)
		a.LoadImm64(8, uint64(len(p.cycle)))
		a.Ecalli(24) // forget
		a.LoadImm64(7, hp)
		a.LoadImm64(8, uint64(len(p.cycle)))
		a.Ecalli(23) // solicit
	}
	if p.creates {
		ch := h256(u32le(uint32(p.id)), []byte("code of a service born on chain"))
		a.LoadImm64(7, d.Put(ch[:]))
		a.LoadImm64(8, 60) // code length
		a.LoadImm64(9, 5)  // minimum accumulate gas
		a.LoadImm64(10, 5) // minimum memo gas
		a.LoadImm64(11, 0) // gratis offset
		a.LoadImm64(12, 0) // requested identifier (registrar only)
		a.Ecalli(18)       // new
	}
	if p.yield {
		y := h256(u32le(uint32(p.id)), []byte("yield"))
		a.LoadImm64(7, d.Put(y[:]))
		a.Ecalli(25)
	}
	a.LoadImm64(7, buf)
	a.LoadImm64(8, 0)
	a.Halt()
	return pvmasm.Standard(a.Blob(), d.Bytes, 4096)
}

// ---- what the author knows about the reports pipeline ----------------------------------------------

func reportHash(r *types.WorkReport) types.WorkReportHash {
	raw, err := types.NewEncoder().Encode(r)
	if err != nil {
		panic("encode report: " + err.Error())
	}
	return types.WorkReportHash(h256(raw))
}

// pendingAfterDisputes is ρ†: the pending reports minus those this block's verdicts judge bad or wonky.
func pendingAfterDisputes(st *types.State, d types.DisputesExtrinsic) types.AvailabilityAssignments {
	out := make(types.AvailabilityAssignments, len(st.Rho))
	copy(out, st.Rho)
	notGood := map[types.WorkReportHash]bool{}
	for _, v := range d.Verdicts {
		pos := 0
		for _, j := range v.Votes {
			if j.Vote {
				pos++
			}
		}
		if pos < types.ValidatorsCount*2/3+1 {
			notGood[v.Target] = true
		}
	}
	for c, a := range out {
		if a != nil && notGood[reportHash(&a.Report)] {
			out[c] = nil
		}
	}
	return out
}

// knownPackages: package hash -> exports root of everything a new report may name as a dependency
// (recent history; reports of the same extrinsic are added by the caller).
func knownPackages(st *types.State) map[types.WorkPackageHash]types.ExportsRoot {
	m := map[types.WorkPackageHash]types.ExportsRoot{}
	for _, bi := range st.Beta.History {
		for _, rp := range bi.Reported {
			m[types.WorkPackageHash(rp.Hash)] = rp.ExportsRoot
		}
	}
	return m
}

func usedPackages(st *types.State) map[types.WorkPackageHash]bool {
	m := map[types.WorkPackageHash]bool{}
	for k := range knownPackages(st) {
		m[k] = true
	}
	for _, a := range st.Rho {
		if a != nil {
			m[a.Report.PackageSpec.Hash] = true
		}
	}
	for _, q := range st.Vartheta {
		for _, rr := range q {
			m[rr.Report.PackageSpec.Hash] = true
		}
	}
	for _, x := range st.Xi {
		for _, h := range x {
			m[h] = true
		}
	}
	return m
}

func availMessage(parent types.HeaderHash, bits types.Bitfield) []byte {
	h := h256(parent[:], bits.ToOctetSlice())
	return append([]byte(types.JamAvailable), h[:]...)
}

func guaranteeMessage(r *types.WorkReport) []byte {
	h := reportHash(r)
	return append([]byte(types.JamGuarantee), h[:]...)
}

// planReports adds assurances for the pending reports and guarantees for new ones.
func (ru *run) planReports(parent *chainBlock, plan *blockPlan) {
	t := ru.t
	st := parent.state
	if !t.Prob(3, 4, "reports_in_block") {
		return
	}
	sv := ru.a.view(st, plan.slot, plan.offenders)
	rhoD := pendingAfterDisputes(st, plan.ext.Disputes)
	// ---- assurances (signed by κ, the validator set of the prior state) -----------------------------
	engaged := []int{}
	for c, a := range rhoD {
		if a != nil {
			engaged = append(engaged, c)
		}
	}
	avail := make([]bool, types.CoresCount)
	if len(engaged) > 0 && t.Prob(5, 6, "assurances") {
		votes := make([]int, types.CoresCount) // how many validators will attest each engaged core
		for _, c := range engaged {
			votes[c] = []int{0, 3, types.ValidatorsSuperMajority - 1, types.ValidatorsSuperMajority, types.ValidatorsSuperMajority, types.ValidatorsCount}[t.Choose(6, "assurers")]
		}
		order := t.Perm(types.ValidatorsCount, "assurer_order")
		given := make([]int, types.CoresCount)
		var ext types.AssurancesExtrinsic
		for _, vi := range order {
			who := valByEd(st.Kappa[vi].Ed25519)
			if who == nil {
				continue // key zeroed: cannot sign
			}
			bits := make(types.Bitfield, types.CoresCount)
			any := false
			for _, c := range engaged {
				if given[c] < votes[c] {
					bits[c] = 1
					given[c]++
					any = true
				}
			}
			if !any && !t.Prob(1, 4, "empty_assurance") {
				continue
			}
			ext = append(ext, types.AvailAssurance{Anchor: types.HeaderHash(parent.hash), Bitfield: bits, ValidatorIndex: types.ValidatorIndex(vi),
				Signature: edSign(who, availMessage(parent.hash, bits))})
		}
		sort.Slice(ext, func(i, j int) bool { return ext[i].ValidatorIndex < ext[j].ValidatorIndex })
		plan.ext.Assurances = ext
		for _, c := range engaged {
			avail[c] = given[c] >= types.ValidatorsSuperMajority
		}
	}
	// ρ‡: available or timed-out reports leave their core
	free := make([]bool, types.CoresCount)
	for c := range free {
		a := rhoD[c]
		free[c] = a == nil || avail[c] || plan.slot >= a.AssignedSlot+types.TimeSlot(types.WorkReportTimeout)
		if st.Rho[c] == nil {
			free[c] = true
		}
	}
	// ---- guarantees -------------------------------------------------------------------------------------
	if len(st.Beta.History) == 0 {
		return
	}
	offender := map[types.Ed25519Public]bool{}
	for _, o := range st.Psi.Offenders {
		offender[o] = true
	}
	for _, o := range plan.offenders {
		offender[o] = true
	}
	banned := func(set types.ValidatorsData) bool {
		for _, v := range set {
			if offender[v.Ed25519] {
				return true
			}
		}
		return false
	}
	rot := int(plan.slot) / types.RotationPeriod
	known := knownPackages(st)
	used := usedPackages(st)
	var gs types.GuaranteesExtrinsic
	for c := 0; c < types.CoresCount; c++ {
		if !free[c] || len(st.Alpha[c]) == 0 || !t.Prob(2, 3, "guarantee") {
			continue
		}
		// which rotation the guarantee claims
		gslot := types.TimeSlot(rot*types.RotationPeriod + t.Choose(int(plan.slot)-rot*types.RotationPeriod+1, "gslot_cur"))
		set := sv.kappa
		entropy := sv.eta[2]
		aslot := plan.slot
		if rot >= 1 && t.Prob(1, 3, "previous_rotation") {
			gslot = types.TimeSlot((rot-1)*types.RotationPeriod + t.Choose(types.RotationPeriod, "gslot_prev"))
			aslot = plan.slot - types.TimeSlot(types.RotationPeriod)
			if int(aslot)/types.EpochLength != int(plan.slot)/types.EpochLength {
				set, entropy = sv.lambda, sv.eta[3]
			}
		}
		if banned(set) {
			continue // the node refuses every guarantee while an offender's key is still in the set
		}
		assign := extrinsic.NewGuranatorAssignments(entropy, aslot, set).CoreAssignments
		var cand []int
		for i, cc := range assign {
			if int(cc) == c && valByEd(set[i].Ed25519) != nil {
				cand = append(cand, i)
			}
		}
		if len(cand) < 2 {
			continue
		}
		if len(cand) > 2 && t.Bool("two_signers") {
			k := t.Choose(len(cand), "drop_signer")
			cand = append(cand[:k:k], cand[k+1:]...)
		}
		var r types.WorkReport
		ru.reportSeq++
		r.PackageSpec.Hash = types.WorkPackageHash(h256([]byte{byte(parent.depth), byte(c), byte(ru.reportSeq), byte(ru.reportSeq >> 8), byte(t.Choose(4, "pkg"))}))
		if used[r.PackageSpec.Hash] {
			continue
		}
		// counts and sizes of a report are mostly small; one report in five carries the large legal values (thousands of
		// exported / imported segments, megabytes of bundle and extrinsic data, refinement gas beyond 2^32): the
		// statistics derived from them must not depend on intermediate results fitting a narrow type
		largeCounts := t.Prob(1, 5, "report_with_large_counts")
		big16 := func(small int, label string) types.U16 {
			if largeCounts && t.Bool(label+"_large") {
				return []types.U16{255, 256, 1007, 1008, 1009, 2048, 3071, 3072}[t.Choose(8, label+"_large_value")]
			}
			return types.U16(t.Choose(small, label))
		}
		r.PackageSpec.Length = types.U32(100 + t.Choose(5000, "pkg_len"))
		if largeCounts && t.Bool("pkg_len_large") {
			r.PackageSpec.Length = []types.U32{65535, 65536, 1 << 20, 13794305 - 1}[t.Choose(4, "pkg_len_large_value")]
		}
		r.PackageSpec.ErasureRoot = types.ErasureRoot(h256(r.PackageSpec.Hash[:], []byte("erasure")))
		r.PackageSpec.ExportsRoot = types.ExportsRoot(h256(r.PackageSpec.Hash[:], []byte("exports")))
		r.PackageSpec.ExportsCount = big16(4, "exports")
		// anchor: an entry of β†
		hist := st.Beta.History
		ai := len(hist) - 1
		if t.Prob(1, 3, "older_anchor") {
			ai = t.Choose(len(hist), "anchor")
		}
		r.Context.Anchor = hist[ai].HeaderHash
		r.Context.StateRoot = hist[ai].StateRoot
		if ai == len(hist)-1 {
			r.Context.StateRoot = parent.root
		}
		r.Context.BeefyRoot = types.BeefyRoot(hist[ai].BeefyRoot)
		// lookup anchor: a recent ancestor
		la := parent
		for k := t.Choose(3, "lookup_back"); k > 0 && la.parent != nil && la.parent.parent != nil; k-- {
			la = la.parent
		}
		if int(plan.slot)-int(la.block.Header.Slot) > types.MaxLookupAge {
			continue // after a long gap no ancestor is recent enough to be a lookup anchor
		}
		r.Context.LookupAnchor = la.hash
		r.Context.LookupAnchorSlot = la.block.Header.Slot
		r.Context.Prerequisites = []types.OpaqueHash{}
		r.SegmentRootLookup = types.SegmentRootLookup{}
		// dependencies: packages of the recent history (possibly not accumulated yet) or of this extrinsic
		var names []types.WorkPackageHash
		for k := range known {
			names = append(names, k)
		}
		sort.Slice(names, func(i, j int) bool { return bytes.Compare(names[i][:], names[j][:]) < 0 })
		if len(names) > 0 && t.Prob(1, 2, "dependencies") {
			nd := 1 + t.Choose(2, "ndeps")
			seen := map[types.WorkPackageHash]bool{}
			for k := 0; k < nd; k++ {
				dep := names[t.Choose(len(names), "dep")]
				if seen[dep] {
					continue
				}
				seen[dep] = true
				switch {
				case t.Prob(1, 5, "dependency_named_twice"):
					// the same package as a prerequisite AND in the segment-root lookup: one dependency, named twice
					r.SegmentRootLookup = append(r.SegmentRootLookup, types.SegmentRootLookupItem{WorkPackageHash: dep, SegmentTreeRoot: types.OpaqueHash(known[dep])})
					r.Context.Prerequisites = append(r.Context.Prerequisites, types.OpaqueHash(dep))
					ru.r.Count("probe:dependency_named_as_prerequisite_and_lookup", 1)
				case t.Prob(1, 3, "segment_lookup"):
					r.SegmentRootLookup = append(r.SegmentRootLookup, types.SegmentRootLookupItem{WorkPackageHash: dep, SegmentTreeRoot: types.OpaqueHash(known[dep])})
				default:
					r.Context.Prerequisites = append(r.Context.Prerequisites, types.OpaqueHash(dep))
				}
			}
		}
		r.CoreIndex = types.CoreIndex(c)
		r.AuthorizerHash = types.OpaqueHash(st.Alpha[c][t.Choose(len(st.Alpha[c]), "authorizer")])
		r.AuthGasUsed = types.Gas(t.Choose(1000, "auth_gas"))
		r.AuthOutput = types.ByteSequence(t.Bytes(t.Choose(4, "auth_out_len"), "auth_out"))
		nRes := 1 + t.Choose(2, "nresults")
		for k := 0; k < nRes; k++ {
			sid := ru.g.svcIDs[t.Choose(len(ru.g.svcIDs), "res_svc")]
			ac, ok := st.Delta[sid]
			if !ok {
				continue
			}
			res := types.WorkResult{ServiceID: sid, CodeHash: ac.ServiceInfo.CodeHash, PayloadHash: h256([]byte{byte(ru.reportSeq), byte(k)}),
				AccumulateGas: types.Gas(40000 + 1000*t.Choose(30, "acc_gas")),
				RefineLoad: types.RefineLoad{GasUsed: types.Gas(t.Choose(5000, "rl_gas")), Imports: big16(5, "rl_imports"), ExtrinsicCount: types.U16(t.Choose(4, "rl_xc")),
					ExtrinsicSize: types.U32(t.Choose(3000, "rl_xs")), Exports: big16(4, "rl_exports")}}
			if largeCounts && t.Bool("rl_large") {
				res.RefineLoad.GasUsed = []types.Gas{1<<32 - 1, 1 << 32, 4_999_999_999}[t.Choose(3, "rl_gas_large")]
				res.RefineLoad.ExtrinsicSize = []types.U32{65536, 1 << 20, 12 << 20}[t.Choose(3, "rl_xs_large")]
				res.RefineLoad.ExtrinsicCount = []types.U16{127, 128}[t.Choose(2, "rl_xc_large")]
			}
			if largeCounts {
				ru.r.Count("probe:report_with_large_counts", 1)
			}
			if t.Prob(1, 6, "refine_failed") {
				res.Result = types.WorkExecResult{Type: types.WorkExecResultPanic}
			} else {
				res.Result = types.WorkExecResult{Type: types.WorkExecResultOk, Data: append([]byte{byte(k)}, t.Bytes(t.Choose(3, "out_len"), "out")...)}
			}
			r.Results = append(r.Results, res)
		}
		if len(r.Results) == 0 {
			continue
		}
		g := types.ReportGuarantee{Report: r, Slot: gslot}
		msg := guaranteeMessage(&r)
		for _, i := range cand {
			g.Signatures = append(g.Signatures, types.ValidatorSignature{ValidatorIndex: types.ValidatorIndex(i), Signature: edSign(valByEd(set[i].Ed25519), msg)})
		}
		gs = append(gs, g)
		used[r.PackageSpec.Hash] = true
		known[r.PackageSpec.Hash] = r.PackageSpec.ExportsRoot // the next core's report may depend on this one
	}
	plan.ext.Guarantees = gs
	if len(gs) > 0 {
		ru.r.Count("author:guarantees_planned", int64(len(gs)))
	}
	for i := range gs {
		for j := i + 1; j < len(gs); j++ {
			if gs[i].Report.AuthorizerHash == gs[j].Report.AuthorizerHash {
				ru.r.Count("probe:two_cores_use_the_same_authorizer_in_one_block", 1)
			}
		}
	}
}

func fmtCores(b []bool) string {
	s := ""
	for _, x := range b {
		if x {
			s += "1"
		} else {
			s += "0"
		}
	}
	return s
}

var _ = fmt.Sprintf

// guarantorSet: the validator set whose keys sign a guarantee with slot gslot in a block at `slot` (κ′ for the
// current rotation; for the previous rotation λ′ when that rotation lies in the previous epoch).
func guarantorSet(sv safroleView, slot, gslot types.TimeSlot) types.ValidatorsData {
	if int(slot)/types.RotationPeriod == int(gslot)/types.RotationPeriod {
		return sv.kappa
	}
	if (int(slot)-types.RotationPeriod)/types.EpochLength != int(slot)/types.EpochLength {
		return sv.lambda
	}
	return sv.kappa
}

// resignGuarantee signs guarantee gi of b again with the validators its credentials name.
func (ru *run) resignGuarantee(parent *chainBlock, b *types.Block, gi int, offenders []types.Ed25519Public) bool {
	sv := ru.a.view(parent.state, b.Header.Slot, offenders)
	g := &b.Extrinsic.Guarantees[gi]
	set := guarantorSet(sv, b.Header.Slot, g.Slot)
	msg := guaranteeMessage(&g.Report)
	sigs := append([]types.ValidatorSignature(nil), g.Signatures...)
	for i := range sigs {
		if int(sigs[i].ValidatorIndex) >= len(set) {
			return false
		}
		who := valByEd(set[sigs[i].ValidatorIndex].Ed25519)
		if who == nil {
			return false
		}
		sigs[i].Signature = edSign(who, msg)
	}
	g.Signatures = sigs
	return true
}

// mutateGuarantee copies the guarantees, lets f damage one report, signs it again.
func mutateGuarantee(ru *run, p *chainBlock, b *types.Block, offenders *[]types.Ed25519Public, f func(g *types.ReportGuarantee) bool) bool {
	if len(b.Extrinsic.Guarantees) == 0 {
		return false
	}
	gi := ru.t.Choose(len(b.Extrinsic.Guarantees), "which_guarantee")
	if !f(&b.Extrinsic.Guarantees[gi]) {
		return false
	}
	if !ru.resignGuarantee(p, b, gi, *offenders) {
		return false
	}
	fixExtrinsicHash(b)
	return true
}

func mutateAssurance(ru *run, p *chainBlock, b *types.Block, resign bool, f func(a *types.AvailAssurance) bool) bool {
	if len(b.Extrinsic.Assurances) == 0 {
		return false
	}
	ai := ru.t.Choose(len(b.Extrinsic.Assurances), "which_assurance")
	a := &b.Extrinsic.Assurances[ai]
	a.Bitfield = append(types.Bitfield(nil), a.Bitfield...)
	if !f(a) {
		return false
	}
	if resign {
		if int(a.ValidatorIndex) >= len(p.state.Kappa) {
			return false
		}
		who := valByEd(p.state.Kappa[a.ValidatorIndex].Ed25519)
		if who == nil {
			return false
		}
		a.Signature = edSign(who, availMessage(types.HeaderHash(a.Anchor), a.Bitfield))
	}
	fixExtrinsicHash(b)
	return true
}

type mutApply = func(ru *run, p *chainBlock, b *types.Block, offenders *[]types.Ed25519Public) bool

func init() {
	gm := func(name string, f func(ru *run, p *chainBlock, b *types.Block, g *types.ReportGuarantee) bool) mutation {
		return mutation{name: name, stage: 9, apply: func(ru *run, p *chainBlock, b *types.Block, o *[]types.Ed25519Public) bool {
			return mutateGuarantee(ru, p, b, o, func(g *types.ReportGuarantee) bool { return f(ru, p, b, g) })
		}}
	}
	mutations = append(mutations,
		mutation{name: "guarantee-bad-signature", stage: 9, apply: func(ru *run, p *chainBlock, b *types.Block, _ *[]types.Ed25519Public) bool {
			if len(b.Extrinsic.Guarantees) == 0 {
				return false
			}
			g := &b.Extrinsic.Guarantees[ru.t.Choose(len(b.Extrinsic.Guarantees), "which_guarantee")]
			sigs := append([]types.ValidatorSignature(nil), g.Signatures...)
			sigs[ru.t.Choose(len(sigs), "which_sig")].Signature[7] ^= 0x10
			g.Signatures = sigs
			fixExtrinsicHash(b)
			return true
		}},
		gm("guarantee-wrong-core", func(ru *run, p *chainBlock, b *types.Block, g *types.ReportGuarantee) bool {
			if len(b.Extrinsic.Guarantees) != 1 {
				return false
			}
			g.Report.CoreIndex = types.CoreIndex((int(g.Report.CoreIndex) + 1) % types.CoresCount)
			return true
		}),
		gm("guarantee-core-index-out-of-range", func(ru *run, p *chainBlock, b *types.Block, g *types.ReportGuarantee) bool {
			if len(b.Extrinsic.Guarantees) != 1 {
				return false
			}
			g.Report.CoreIndex = types.CoreIndex(types.CoresCount + ru.t.Choose(3, "oor"))
			return true
		}),
		gm("guarantee-package-already-reported", func(ru *run, p *chainBlock, b *types.Block, g *types.ReportGuarantee) bool {
			for _, bi := range p.state.Beta.History {
				for _, rp := range bi.Reported {
					g.Report.PackageSpec.Hash = types.WorkPackageHash(rp.Hash)
					return true
				}
			}
			return false
		}),
		gm("guarantee-anchor-unknown", func(ru *run, p *chainBlock, b *types.Block, g *types.ReportGuarantee) bool {
			g.Report.Context.Anchor[ru.t.Choose(32, "byte")] ^= 0x20
			return true
		}),
		gm("guarantee-anchor-state-root-wrong", func(ru *run, p *chainBlock, b *types.Block, g *types.ReportGuarantee) bool {
			g.Report.Context.StateRoot[ru.t.Choose(32, "byte")] ^= 0x02
			return true
		}),
		gm("guarantee-anchor-beefy-root-wrong", func(ru *run, p *chainBlock, b *types.Block, g *types.ReportGuarantee) bool {
			g.Report.Context.BeefyRoot[ru.t.Choose(32, "byte")] ^= 0x04
			return true
		}),
		gm("guarantee-unknown-service", func(ru *run, p *chainBlock, b *types.Block, g *types.ReportGuarantee) bool {
			res := append([]types.WorkResult(nil), g.Report.Results...)
			res[0].ServiceID = types.ServiceID(999000 + ru.t.Choose(9, "svc"))
			g.Report.Results = res
			return true
		}),
		gm("guarantee-code-hash-wrong", func(ru *run, p *chainBlock, b *types.Block, g *types.ReportGuarantee) bool {
			res := append([]types.WorkResult(nil), g.Report.Results...)
			res[len(res)-1].CodeHash[0] ^= 1
			g.Report.Results = res
			return true
		}),
		gm("guarantee-gas-below-service-minimum", func(ru *run, p *chainBlock, b *types.Block, g *types.ReportGuarantee) bool {
			res := append([]types.WorkResult(nil), g.Report.Results...)
			res[0].AccumulateGas = 1
			g.Report.Results = res
			return true
		}),
		gm("guarantee-authorizer-not-in-pool", func(ru *run, p *chainBlock, b *types.Block, g *types.ReportGuarantee) bool {
			g.Report.AuthorizerHash = h256([]byte("not in any pool"), []byte{byte(ru.t.Choose(9, "x"))})
			return true
		}),
		gm("guarantee-dependency-unknown", func(ru *run, p *chainBlock, b *types.Block, g *types.ReportGuarantee) bool {
			g.Report.Context.Prerequisites = append(append([]types.OpaqueHash(nil), g.Report.Context.Prerequisites...), h256([]byte("nobody reported this package")))
			return true
		}),
		gm("guarantee-segment-root-wrong", func(ru *run, p *chainBlock, b *types.Block, g *types.ReportGuarantee) bool {
			if len(g.Report.SegmentRootLookup) == 0 {
				return false
			}
			l := append(types.SegmentRootLookup(nil), g.Report.SegmentRootLookup...)
			l[0].SegmentTreeRoot[5] ^= 8
			g.Report.SegmentRootLookup = l
			return true
		}),
		mutation{name: "guarantee-slot-in-the-future", stage: 9, apply: func(ru *run, p *chainBlock, b *types.Block, _ *[]types.Ed25519Public) bool {
			if len(b.Extrinsic.Guarantees) == 0 {
				return false
			}
			b.Extrinsic.Guarantees[0].Slot = b.Header.Slot + 1 + types.TimeSlot(ru.t.Choose(3, "ahead"))
			fixExtrinsicHash(b)
			return true
		}},
		mutation{name: "guarantees-out-of-order", stage: 9, apply: func(ru *run, p *chainBlock, b *types.Block, _ *[]types.Ed25519Public) bool {
			g := b.Extrinsic.Guarantees
			if len(g) < 2 {
				return false
			}
			g[0], g[1] = g[1], g[0]
			fixExtrinsicHash(b)
			return true
		}},
		mutation{name: "guarantee-signers-out-of-order", stage: 9, apply: func(ru *run, p *chainBlock, b *types.Block, _ *[]types.Ed25519Public) bool {
			if len(b.Extrinsic.Guarantees) == 0 {
				return false
			}
			g := &b.Extrinsic.Guarantees[0]
			sigs := append([]types.ValidatorSignature(nil), g.Signatures...)
			sigs[0], sigs[1] = sigs[1], sigs[0]
			g.Signatures = sigs
			fixExtrinsicHash(b)
			return true
		}},
		mutation{name: "guarantee-single-signer", stage: 9, apply: func(ru *run, p *chainBlock, b *types.Block, _ *[]types.Ed25519Public) bool {
			if len(b.Extrinsic.Guarantees) == 0 {
				return false
			}
			g := &b.Extrinsic.Guarantees[0]
			g.Signatures = append([]types.ValidatorSignature(nil), g.Signatures[:1]...)
			fixExtrinsicHash(b)
			return true
		}},
		mutation{name: "guarantee-for-engaged-core", stage: 9, apply: func(ru *run, p *chainBlock, b *types.Block, o *[]types.Ed25519Public) bool {
			// move a guarantee to a core whose report is still pending (and neither available nor timed out in this block)
			if len(b.Extrinsic.Guarantees) != 1 {
				return false
			}
			g := &b.Extrinsic.Guarantees[0]
			other := (int(g.Report.CoreIndex) + 1) % types.CoresCount
			a := p.state.Rho[other]
			if a == nil || b.Header.Slot >= a.AssignedSlot+types.TimeSlot(types.WorkReportTimeout) {
				return false
			}
			for _, w := range refAvailable(p.state, b) {
				if int(w.CoreIndex) == other {
					return false
				}
			}
			// the signers stay those assigned to the old core: the block is wrong either way (engaged core or wrong assignment)
			g.Report.CoreIndex = types.CoreIndex(other)
			if !ru.resignGuarantee(p, b, 0, *o) {
				return false
			}
			fixExtrinsicHash(b)
			return true
		}},
		mutation{name: "assurance-bad-signature", stage: 8, apply: func(ru *run, p *chainBlock, b *types.Block, _ *[]types.Ed25519Public) bool {
			return mutateAssurance(ru, p, b, false, func(a *types.AvailAssurance) bool { a.Signature[9] ^= 0x40; return true })
		}},
		mutation{name: "assurance-wrong-anchor", stage: 8, apply: func(ru *run, p *chainBlock, b *types.Block, _ *[]types.Ed25519Public) bool {
			return mutateAssurance(ru, p, b, true, func(a *types.AvailAssurance) bool { a.Anchor[3] ^= 1; return true })
		}},
		mutation{name: "assurance-bit-for-free-core", stage: 8, apply: func(ru *run, p *chainBlock, b *types.Block, _ *[]types.Ed25519Public) bool {
			rhoD := pendingAfterDisputes(p.state, b.Extrinsic.Disputes)
			return mutateAssurance(ru, p, b, true, func(a *types.AvailAssurance) bool {
				for c := range rhoD {
					if rhoD[c] == nil && c < len(a.Bitfield) {
						a.Bitfield[c] = 1
						return true
					}
				}
				return false
			})
		}},
		mutation{name: "assurance-validator-index-out-of-range", stage: 8, apply: func(ru *run, p *chainBlock, b *types.Block, _ *[]types.Ed25519Public) bool {
			n := len(b.Extrinsic.Assurances)
			if n == 0 {
				return false
			}
			b.Extrinsic.Assurances[n-1].ValidatorIndex = types.ValidatorIndex(types.ValidatorsCount + ru.t.Choose(2, "oor"))
			fixExtrinsicHash(b)
			return true
		}},
		mutation{name: "assurances-out-of-order", stage: 8, apply: func(ru *run, p *chainBlock, b *types.Block, _ *[]types.Ed25519Public) bool {
			a := b.Extrinsic.Assurances
			if len(a) < 2 {
				return false
			}
			a[0], a[len(a)-1] = a[len(a)-1], a[0]
			fixExtrinsicHash(b)
			return true
		}},
		mutation{name: "assurance-duplicate-validator", stage: 8, apply: func(ru *run, p *chainBlock, b *types.Block, _ *[]types.Ed25519Public) bool {
			a := b.Extrinsic.Assurances
			if len(a) < 1 {
				return false
			}
			b.Extrinsic.Assurances = append(append(types.AssurancesExtrinsic(nil), a[0]), a...)
			fixExtrinsicHash(b)
			return true
		}},
	)
}
