//go:build verif

package h4chain_test

import (
	"fmt"
	"strings"

	"github.com/New-JAMneration/JAM-Protocol/internal/types"
	"github.com/New-JAMneration/JAM-Protocol/internal/utilities"
	"github.com/New-JAMneration/JAM-Protocol/internal/utilities/merklization"
	vrf "github.com/New-JAMneration/JAM-Protocol/pkg/Rust-VRF/vrf-func-ffi/src"
)

// delivery is one step of the faulty history given to the node under test.
type delivery struct {
	kind  string      // "valid", "invalid", "retry", "orphan", "restart", "getstate-unknown"
	blk   *chainBlock // block delivered (valid / invalid / orphan)
	mut   *mutation
	perm  []int // restart: key order
	withA bool  // restart: with ancestry
}

func (ru *run) mutate(vb *chainBlock) *chainBlock {
	t := ru.t
	// the block that gets damaged is either the valid block itself or a freshly planned SIBLING of it (other slot,
	// other tickets / preimages / disputes): what a rejected block may leave behind then differs from what the
	// valid block that follows it brings
	if t.Prob(1, 2, "damage_a_sibling") {
		ru.moreDisputes = true
		plan := ru.planBlock(vb.parent)
		ru.moreDisputes = false
		if sb, err := ru.a.build(vb.parent, plan); err == nil {
			vb = &chainBlock{block: sb, hash: headerHash(sb.Header), parent: vb.parent, depth: vb.depth, offenders: plan.offenders, ticketPicks: plan.ticketPicks}
			ru.r.Count("fault:damaged_block_is_a_sibling", 1)
		}
	}
	// half of the damage is of the kinds the checked property's own text demands to be rejected
	var own []int
	for i := range mutations {
		if mutations[i].mustReject == ru.r.Prop {
			own = append(own, i)
		}
	}
	for try := 0; try < 6; try++ {
		m := &mutations[t.Choose(len(mutations), "mutation")]
		if len(own) > 0 && t.Prob(1, 2, "own_mutation") {
			m = &mutations[own[t.Choose(len(own), "which_own")]]
		}
		b := cloneBlock(vb.block)
		offenders := append([]types.Ed25519Public(nil), vb.offenders...)
		if !m.apply(ru, vb.parent, &b, &offenders) {
			continue
		}
		switch m.reseal {
		case 0:
			if err := ru.a.reseal(vb.parent, &b, offenders); err != nil {
				continue
			}
		case 1: // seal only: the (broken) entropy source stays
			sv := ru.a.view(vb.parent.state, b.Header.Slot, offenders)
			if int(b.Header.AuthorIndex) >= len(sv.kappa) {
				continue
			}
			who := valByBandersnatch(sv.kappa[b.Header.AuthorIndex].Bandersnatch)
			if who == nil {
				continue
			}
			ctx, _ := sealContext(sv, b.Header.Slot)
			msg, err := utilities.HeaderUSerialization(b.Header)
			if err != nil {
				continue
			}
			seal, _ := vrf.IETFSign(who.bsk, ctx, msg)
			copy(b.Header.Seal[:], seal)
		}
		inv := &chainBlock{block: b, hash: headerHash(b.Header), parent: vb.parent, depth: vb.depth, mutated: m.name}
		if inv.hash == vb.hash {
			continue
		}
		inv.mut = m
		return inv
	}
	return nil
}

// orphan builds a well-formed block whose parent is a block the clean node has never accepted.
// head is the block the node under test has as its head when the orphan is delivered (it differs from the
// rejected block's parent when the rejected block sits on another fork): one variant is, apart from its parent
// hash, a perfectly valid child of that head.
func (ru *run) orphan(rejected *chainBlock, sibling *chainBlock, head *chainBlock) *chainBlock {
	b := cloneBlock(sibling.block)
	b.Header.Parent = rejected.hash
	b.Header.Slot = sibling.block.Header.Slot + 1
	sealOn := sibling.parent
	switch ru.t.Choose(4, "orphan_root") {
	case 0:
		b.Header.ParentStateRoot = sibling.parent.root
	case 1:
		b.Header.ParentStateRoot = types.StateRoot{}
	case 2:
		b.Header.ParentStateRoot = sibling.root
	default:
		// a freshly authored, fully valid child of the head whose parent hash is then pointed at the rejected block
		plan := ru.planBlock(head)
		if sb, err := ru.a.build(head, plan); err == nil {
			sb.Header.Parent = rejected.hash
			if ru.a.reseal(head, &sb, plan.offenders) == nil {
				if head != sibling.parent {
					ru.r.Count("fault:orphan_is_otherwise_valid_child_of_head_on_other_fork", 1)
				} else {
					ru.r.Count("fault:orphan_is_otherwise_valid_child_of_head", 1)
				}
				return &chainBlock{block: sb, hash: headerHash(sb.Header), parent: rejected, depth: rejected.depth + 1, mutated: "child-of-rejected-block"}
			}
		}
		b.Header.ParentStateRoot = head.root
		sealOn = head
	}
	b.Extrinsic = types.Extrinsic{}
	fixExtrinsicHash(&b)
	b.Header.OffendersMark = types.OffendersMark{}
	b.Header.EpochMark, b.Header.TicketsMark = nil, nil
	_ = ru.a.reseal(sealOn, &b, nil)
	return &chainBlock{block: b, hash: headerHash(b.Header), parent: rejected, depth: rejected.depth + 1, mutated: "child-of-rejected-block"}
}

func (ru *run) phaseC() {
	r, t := ru.r, ru.t
	// ---- the schedule (pure harness logic) ---------------------------------------------------------
	var sched []delivery
	faults := 0
	maxFaults := 8
	stormDone := false
	head := ru.gen // the block the nodes will have as head at this point of the schedule (if every valid delivery is accepted)
	for _, vb := range ru.all {
		if !vb.valid || !vb.accepted {
			continue
		}
		// a block on another fork than the current head: what is rejected next is a SIBLING (or cousin) of the head
		onOtherFork := vb.parent != head
		faultNum, orphanDen := 1, 4
		if onOtherFork {
			faultNum, orphanDen = 2, 2
		}
		if faults < maxFaults && t.Prob(faultNum, 3, "fault_here") {
			faults++
			switch t.Pick([]int{8, 2, 1}, "fault_kind") {
			case 0:
				inv := ru.mutate(vb)
				if inv == nil {
					break
				}
				if onOtherFork {
					r.Count("fault:rejected_block_on_other_fork_than_head", 1)
				}
				sched = append(sched, delivery{kind: "invalid", blk: inv, mut: inv.mut})
				if t.Prob(1, 3, "retry") {
					sched = append(sched, delivery{kind: "retry", blk: inv, mut: inv.mut})
				}
				if t.Prob(1, orphanDen, "orphan") {
					sched = append(sched, delivery{kind: "orphan", blk: ru.orphan(inv, vb, head)})
				}
				if t.Prob(1, 6, "second_invalid") {
					if inv2 := ru.mutate(vb); inv2 != nil {
						sched = append(sched, delivery{kind: "invalid", blk: inv2, mut: inv2.mut})
					}
				}
				// a STORM of refused imports on one head: more of them than any retention window of the node holds
				// (a peer that keeps sending bad blocks must not push the head, or the fork points behind it, out of the node)
				if !stormDone && t.Prob(1, 8, "storm_of_refused_imports") {
					stormDone = true
					n := 22 + t.Choose(12, "storm_size")
					var pool []*chainBlock
					pool = append(pool, inv)
					for k := 0; k < 2; k++ {
						if x := ru.mutate(vb); x != nil {
							pool = append(pool, x)
						}
					}
					seenInStorm := map[*chainBlock]bool{inv: true} // inv was delivered (and judged by the oracle) above
					for k := 0; k < n; k++ {
						x := pool[k%len(pool)]
						kind := "retry"
						if !seenInStorm[x] {
							kind = "invalid" // first delivery: the oracle decides whether a clean node refuses it at all
							seenInStorm[x] = true
						}
						sched = append(sched, delivery{kind: kind, blk: x, mut: x.mut})
					}
					r.Count("fault:storm_of_refused_imports_on_one_head", 1)
				}
			case 1:
				sched = append(sched, delivery{kind: "restart", withA: t.Bool("with_ancestry"), perm: t.Perm(64, "restart_perm")})
			case 2:
				sched = append(sched, delivery{kind: "getstate-unknown"})
			}
		}
		sched = append(sched, delivery{kind: "valid", blk: vb})
		head = vb
	}
	// ---- phase B': oracle answers for the faulty blocks (fresh incarnations, before N1 exists) -----
	for i := range sched {
		d := &sched[i]
		if d.kind == "invalid" || d.kind == "orphan" {
			ru.oracle(d.blk)
			if r.Violated() {
				return
			}
			if d.blk.accepted {
				if d.mut != nil && d.mut.mustReject != "" {
					r.Violate(d.mut.mustReject, "invalid-accepted", "invalid-block-accepted:"+d.mut.name, "a fresh node accepted a block with %s (depth %d, slot %d)", d.mut.name, d.blk.depth, d.blk.block.Header.Slot)
					return
				}
				r.Count("mutation_turned_out_valid:"+d.blk.mutated, 1)
				// a damaged block that a clean node accepts is a valid block: every reference model applies to it
				// (this is where an accepted second verdict on a judged report, an accepted duplicate ticket, ... show)
				if d.blk.parent != nil && d.blk.parent.state != nil && d.blk.parent.mutated == "" && d.blk.state != nil {
					checkTransition(r, ru, d.blk)
					if r.Violated() {
						return
					}
					r.Count("probe:reference_models_on_accepted_damaged_block", 1)
				}
			} else {
				r.Count("fault:invalid_block:"+d.blk.mutated, 1)
				if d.mut != nil {
					r.Count(fmt.Sprintf("rejections_by_stage:%d", d.mut.stage), 1)
				}
			}
		}
	}
	// ---- phase B'': the reference incarnation N2 receives the same history WITHOUT the blocks a clean
	// node rejects – it is "a node that never saw the rejected block" --------------------------------
	type answer struct {
		done     bool
		accepted bool
		root     types.StateRoot
		kvs      string
		err      string
	}
	n2ans := make([]answer, len(sched))
	runSchedule := func(underTest bool) bool {
		n, root0, err := ru.freshNode()
		if err != nil || root0 != ru.gen.root {
			r.Violate("C26", "fresh-nodes-differ", "genesis-root-differs-between-incarnations", "SetState(genesis) on a new incarnation: err=%v root=%x, first incarnation %x", err, root0[:4], ru.gen.root[:4])
			return false
		}
		head := ru.gen // last block this incarnation accepted
		headKVs := kvString(ru.gen.kvs)
		lastFault := ""
		for i, d := range sched {
			switch d.kind {
			case "valid", "invalid", "retry", "orphan":
				b := d.blk
				faulty := d.kind != "valid" && !b.accepted
				if faulty && !underTest {
					continue // N2 never sees it
				}
				root, err := n.importBlock(b.block)
				what := fmt.Sprintf("delivery %d (%s %s depth %d slot %d) after [%s]", i, d.kind, b.mutated, b.depth, b.block.Header.Slot, lastFault)
				var kvs string
				if err == nil {
					got, gerr := n.getState(b.hash)
					if gerr != nil {
						kvs = "GetState error: " + gerr.Error()
					} else {
						kvs = kvString(got)
					}
				}
				if !underTest {
					n2ans[i] = answer{done: true, accepted: err == nil, root: root, kvs: kvs}
					if err != nil {
						n2ans[i].err = err.Error()
					}
					if err == nil {
						head, headKVs = b, kvs
						if b.oracleDone && b.accepted && (root != b.root || kvs != kvString(b.kvs)) {
							// not claimed by any property: a node that has also imported other valid branches answers
							// differently from a node that imported only this block's ancestry
							r.Count("byproduct:valid_block_result_depends_on_other_branches", 1)
							r.Logf("by-product: %s: root %x on the node that saw other valid branches, %x on a node that imported only its ancestry", what, root[:4], b.root[:4])
						}
					} else if b.oracleDone && b.accepted {
						short := err.Error()
						if k := strings.Index(short, "0x"); k > 0 {
							short = short[:k]
						}
						if len(short) > 60 {
							short = short[:60]
						}
						r.Count("info:valid_block_not_importable_on_reference_node(restart_or_finality_policy):"+short, 1)
						r.Logf("by-product: %s rejected (%v) by the node that saw other valid branches", what, err)
					}
					continue
				}
				// ---------------- node under test ----------------
				if faulty {
					if err == nil {
						r.Violate("C26", "diverged", "invalid-block-accepted-by-node-under-test:"+b.mutated, "%s: accepted with root %x, a clean node rejects it (%s)", what, root[:4], b.errText)
						return false
					}
					// atomicity: the state for the current head is unchanged
					got, gerr := n.getState(head.hash)
					if gerr != nil || kvString(got) != headKVs {
						r.Violate("C26", "not-atomic", "head-state-changed-by-rejected-block:"+b.mutated, "%s: after the rejection GetState(head depth %d) differs from before (err=%v)", what, head.depth, gerr)
						return false
					}
					lastFault = d.kind + ":" + b.mutated
					r.Count("fault:delivered_"+d.kind, 1)
					continue
				}
				want := n2ans[i]
				if !want.done {
					continue
				}
				switch {
				case want.accepted && err != nil:
					r.Violate("C26", "diverged", "valid-block-rejected:after-"+faultClass(lastFault), "%s: rejected (%v); the node that received the same history without the rejected blocks accepts it with root %x", what, err, want.root[:4])
					return false
				case !want.accepted && err == nil:
					r.Violate("C26", "diverged", "block-accepted-only-after-fault:after-"+faultClass(lastFault), "%s: accepted; the node that received the same history without the rejected blocks rejects it (%s)", what, want.err)
					return false
				case err == nil && root != want.root:
					r.Violate("C26", "diverged", "root-differs:after-"+faultClass(lastFault), "%s: root %x; the node that received the same history without the rejected blocks answers %x", what, root[:4], want.root[:4])
					return false
				case err == nil && kvs != want.kvs:
					r.Violate("C26", "diverged", "state-differs:after-"+faultClass(lastFault), "%s: GetState differs from the node that received the same history without the rejected blocks", what)
					return false
				}
				if err == nil {
					head, headKVs = b, kvs
					if lastFault != "" {
						r.Count("probe:valid_block_accepted_after_fault", 1)
					}
					lastFault = ""
				}
			case "restart":
				exp, gerr := n.getState(head.hash)
				if gerr != nil {
					if underTest {
						r.Violate("C17", "export", "export-failed", "GetState(head) failed before restart: %v", gerr)
						return false
					}
					continue
				}
				// key order: a tape-chosen permutation (of the first 64 positions, applied block-wise)
				perm := make([]int, len(exp))
				for k := range perm {
					perm[k] = k
				}
				for k := 0; k+len(d.perm) <= len(exp); k += len(d.perm) {
					for j, x := range d.perm {
						perm[k+j] = k + x
					}
				}
				if len(exp) < len(d.perm) {
					for k := range perm {
						perm[k] = len(exp) - 1 - k
					}
				}
				in := make(types.StateKeyVals, len(exp))
				for k, j := range perm {
					in[k] = exp[j]
				}
				var anc types.Ancestry
				if d.withA {
					for _, p := range path(head) {
						anc = append(anc, types.AncestryItem{Slot: p.block.Header.Slot, HeaderHash: p.hash})
					}
				}
				n = &node{r: r}
				root, serr := n.setState(head.block.Header, in, anc)
				again, gerr2 := n.getState(head.hash)
				// restart is checked on both incarnations: C17 does not depend on the injected rejections
				if serr != nil {
					r.Violate("C17", "restart", "restart-failed", "restart at depth %d: SetState(export) failed: %v", head.depth, serr)
					return false
				}
				if plain := merklization.MerklizationSerializedState(exp); types.StateRoot(plain) != root {
					r.Violate("C17", "restart", "restart-root-differs", "restart at depth %d from the exported key-values (permuted, ancestry=%v): SetState returned root %x, the exported set has root %x", head.depth, d.withA, root[:4], plain[:4])
					return false
				}
				if gerr2 != nil || kvString(again) != kvString(exp) {
					r.Violate("C17", "restart", "restart-export-differs", "restart at depth %d: GetState after SetState(export) differs from the export (err=%v): %s", head.depth, gerr2, kvDiff(exp, again))
					return false
				}
				if underTest {
					r.Count("fault:restart_from_export", 1)
					lastFault = "restart"
				}
			case "getstate-unknown":
				var h types.HeaderHash
				copy(h[:], []byte{0xde, 0xad, byte(i), 0x01})
				kvs, gerr := n.getState(h)
				if gerr == nil && len(kvs) > 0 {
					r.Violate("C26", "phantom", "state-for-unknown-block", "GetState of a hash that was never imported returned %d key-values", len(kvs))
					return false
				}
			}
		}
		if underTest {
			r.Count("node_under_test_panics", int64(n.panics))
		}
		return true
	}
	if !runSchedule(false) {
		return
	}
	runSchedule(true)
}

func faultClass(f string) string {
	if f == "" {
		return "no-fault"
	}
	return f
}
