//go:build verif

package h4chain_test

import (
	"bytes"
	"fmt"
	"sort"

	"github.com/New-JAMneration/JAM-Protocol/internal/safrole"
	"github.com/New-JAMneration/JAM-Protocol/internal/types"
	"github.com/New-JAMneration/JAM-Protocol/internal/utilities"
	"github.com/New-JAMneration/JAM-Protocol/internal/utilities/hash"
	vrf "github.com/New-JAMneration/JAM-Protocol/pkg/Rust-VRF/vrf-func-ffi/src"
)

// The author is the block producer of the simulation. It is harness code and NOT an oracle: a
// block it believes valid that a clean node rejects is counted as an author bug and discarded.

type ticketOwner struct {
	val     int
	attempt uint8
}

type author struct {
	owners map[types.TicketID]ticketOwner
}

func newAuthor() *author { return &author{owners: map[types.TicketID]ticketOwner{}} }

// chainBlock is a node of the block tree built during a run.
type chainBlock struct {
	block       types.Block
	hash        types.HeaderHash
	parent      *chainBlock // nil for genesis
	depth       int
	valid       bool   // built to be valid
	mutated     string // for invalid blocks: what was broken
	mut         *mutation
	ticketPicks [][2]int
	offenders   []types.Ed25519Public
	// filled by the oracle phase (clean incarnation importing exactly path(block)):
	oracleDone bool
	accepted   bool
	root       types.StateRoot
	kvs        types.StateKeyVals
	state      *types.State
	errText    string
}

func epochOf(slot types.TimeSlot) (e, m types.TimeSlot) {
	return slot / types.TimeSlot(types.EpochLength), slot % types.TimeSlot(types.EpochLength)
}

// safroleView is what the author derives about the posterior Safrole state of a block at `slot`
// on top of prior state st.
type safroleView struct {
	e, m, e2, m2 types.TimeSlot
	eta          types.EntropyBuffer // η′ (η′0 not yet known: it depends on the block's own entropy source)
	kappa        types.ValidatorsData
	lambda       types.ValidatorsData // λ′
	gammaK       types.ValidatorsData
	gammaS       types.TicketsOrKeys
}

func zeroOffenders(v types.ValidatorsData, offenders []types.Ed25519Public) types.ValidatorsData {
	out := append(types.ValidatorsData(nil), v...)
	for i := range out {
		for _, o := range offenders {
			if out[i].Ed25519 == o {
				out[i] = types.Validator{}
			}
		}
	}
	return out
}

func outsideIn(a types.TicketsAccumulator) []types.TicketBody {
	n := len(a)
	out := make([]types.TicketBody, 0, n)
	for i, j := 0, n-1; i <= j; i, j = i+1, j-1 {
		out = append(out, a[i])
		if i != j {
			out = append(out, a[j])
		}
	}
	return out
}

func (a *author) view(st *types.State, slot types.TimeSlot, newOffenders []types.Ed25519Public) safroleView {
	v := safroleView{}
	v.e, v.m = epochOf(st.Tau)
	v.e2, v.m2 = epochOf(slot)
	v.eta = st.Eta
	if v.e2 > v.e {
		v.eta[1], v.eta[2], v.eta[3] = st.Eta[0], st.Eta[1], st.Eta[2]
		off := append(append([]types.Ed25519Public(nil), st.Psi.Offenders...), newOffenders...)
		v.gammaK = zeroOffenders(st.Iota, off)
		v.kappa = append(types.ValidatorsData(nil), st.Gamma.GammaK...)
		v.lambda = append(types.ValidatorsData(nil), st.Kappa...)
	} else {
		v.gammaK = st.Gamma.GammaK
		v.kappa = st.Kappa
		v.lambda = st.Lambda
	}
	switch {
	case v.e2 == v.e+1 && int(v.m) >= types.SlotSubmissionEnd && len(st.Gamma.GammaA) == types.EpochLength:
		v.gammaS.Tickets = outsideIn(st.Gamma.GammaA)
	case v.e2 == v.e:
		v.gammaS = st.Gamma.GammaS
	default:
		v.gammaS.Keys = safrole.FallbackKeySequence(v.eta[2], v.kappa)
	}
	return v
}

type blockPlan struct {
	slot        types.TimeSlot
	ext         types.Extrinsic
	offenders   []types.Ed25519Public // culprit keys then fault keys of ext.Disputes
	ticketPicks [][2]int
}

func sealContext(sv safroleView, slot types.TimeSlot) (ctx []byte, tb *types.TicketBody) {
	idx := int(slot) % types.EpochLength
	if len(sv.gammaS.Tickets) > 0 {
		t := sv.gammaS.Tickets[idx]
		ctx = append(append([]byte(types.JamTicketSeal), sv.eta[3][:]...), byte(t.Attempt))
		return ctx, &t
	}
	return append([]byte(types.JamFallbackSeal), sv.eta[3][:]...), nil
}

// build produces a block on top of parent. When the slot's author cannot be determined (e.g. the
// key of that slot was zeroed as an offender) it returns an error and the caller picks another slot.
func (a *author) build(parent *chainBlock, plan blockPlan) (types.Block, error) {
	st := parent.state
	sv := a.view(st, plan.slot, plan.offenders)
	var b types.Block
	b.Extrinsic = plan.ext
	normaliseExtrinsic(&b.Extrinsic)
	h := &b.Header
	h.Parent = parent.hash
	h.ParentStateRoot = parent.root
	h.Slot = plan.slot
	xh, err := utilities.CreateExtrinsicHash(b.Extrinsic)
	if err != nil {
		return b, err
	}
	h.ExtrinsicHash = xh
	if sv.e2 > sv.e {
		em := &types.EpochMark{Entropy: st.Eta[0], TicketsEntropy: st.Eta[1]}
		for _, v := range sv.gammaK {
			em.Validators = append(em.Validators, types.EpochMarkValidatorKeys{Bandersnatch: v.Bandersnatch, Ed25519: v.Ed25519})
		}
		h.EpochMark = em
	}
	if sv.e2 == sv.e && int(sv.m) < types.SlotSubmissionEnd && int(sv.m2) >= types.SlotSubmissionEnd && len(st.Gamma.GammaA) == types.EpochLength {
		tm := types.TicketsMark(outsideIn(st.Gamma.GammaA))
		h.TicketsMark = &tm
	}
	h.OffendersMark = append(types.OffendersMark{}, plan.offenders...)
	// who may seal this slot?
	ctx, tb := sealContext(sv, plan.slot)
	var who *valKey
	idx := -1
	if tb != nil {
		o, ok := a.owners[tb.ID]
		if !ok {
			return b, fmt.Errorf("ticket of slot %d has no known owner", plan.slot)
		}
		who = &validators[o.val]
		for i, kv := range sv.kappa {
			if kv.Bandersnatch == who.pub.Bandersnatch {
				idx = i
			}
		}
	} else {
		key := sv.gammaS.Keys[int(plan.slot)%types.EpochLength]
		who = valByBandersnatch(key)
		for i, kv := range sv.kappa {
			if kv.Bandersnatch == key {
				idx = i
				break
			}
		}
	}
	if who == nil || idx < 0 {
		return b, fmt.Errorf("no usable author for slot %d", plan.slot)
	}
	h.AuthorIndex = types.ValidatorIndex(idx)
	if err := sealHeader(h, who, ctx); err != nil {
		return b, err
	}
	return b, nil
}

// sealHeader fills H_v and H_s: H_v signs XE ‖ Y(H_s), H_s signs the unsealed header encoding.
func sealHeader(h *types.Header, who *valKey, ctx []byte) error {
	out := vrfOutput(who, ctx)
	hv, err := vrf.IETFSign(who.bsk, append([]byte(types.JamEntropy), out...), nil)
	if err != nil {
		return err
	}
	copy(h.EntropySource[:], hv)
	msg, err := utilities.HeaderUSerialization(*h)
	if err != nil {
		return err
	}
	seal, err := vrf.IETFSign(who.bsk, ctx, msg)
	if err != nil {
		return err
	}
	copy(h.Seal[:], seal)
	return nil
}

// reseal recomputes entropy source and seal of an (altered) header with the author it names.
func (a *author) reseal(parent *chainBlock, b *types.Block, offenders []types.Ed25519Public) error {
	sv := a.view(parent.state, b.Header.Slot, offenders)
	if int(b.Header.AuthorIndex) >= len(sv.kappa) {
		return fmt.Errorf("author index out of range")
	}
	who := valByBandersnatch(sv.kappa[b.Header.AuthorIndex].Bandersnatch)
	if who == nil {
		return fmt.Errorf("author key unknown")
	}
	ctx, _ := sealContext(sv, b.Header.Slot)
	return sealHeader(&b.Header, who, ctx)
}

func normaliseExtrinsic(e *types.Extrinsic) {
	if e.Tickets == nil {
		e.Tickets = types.TicketsExtrinsic{}
	}
	if e.Preimages == nil {
		e.Preimages = types.PreimagesExtrinsic{}
	}
	if e.Guarantees == nil {
		e.Guarantees = types.GuaranteesExtrinsic{}
	}
	if e.Assurances == nil {
		e.Assurances = types.AssurancesExtrinsic{}
	}
	if e.Disputes.Verdicts == nil {
		e.Disputes.Verdicts = []types.Verdict{}
	}
	if e.Disputes.Culprits == nil {
		e.Disputes.Culprits = []types.Culprit{}
	}
	if e.Disputes.Faults == nil {
		e.Disputes.Faults = []types.Fault{}
	}
}

func headerHash(h types.Header) types.HeaderHash {
	hh, err := hash.ComputeBlockHeaderHash(h)
	if err != nil {
		panic(err)
	}
	return hh
}

// mkTickets makes n ticket envelopes for the block at `slot` on prior state st, sorted by identifier.
func (a *author) mkTickets(st *types.State, slot types.TimeSlot, picks [][2]int, newOffenders ...types.Ed25519Public) types.TicketsExtrinsic {
	sv := a.view(st, slot, newOffenders)
	type te struct {
		id  types.TicketID
		env types.TicketEnvelope
	}
	var out []te
	for _, p := range picks {
		vi, attempt := p[0], p[1]
		inRing := false
		for _, k := range sv.gammaK {
			if k.Bandersnatch == validators[vi].pub.Bandersnatch {
				inRing = true
			}
		}
		if !inRing {
			continue // an offender's key is zeroed in the ring: it cannot submit tickets
		}
		ctx := append(append([]byte(types.JamTicketSeal), sv.eta[2][:]...), byte(attempt))
		sig := vrf.RingSignWithPublic(validators[vi].pub.Bandersnatch[:], ctx, nil)
		var env types.TicketEnvelope
		env.Attempt = types.TicketAttempt(attempt)
		copy(env.Signature[:], sig)
		var id types.TicketID
		copy(id[:], vrf.RingOutput(validators[vi].pub.Bandersnatch[:], ctx))
		a.owners[id] = ticketOwner{val: vi, attempt: uint8(attempt)}
		out = append(out, te{id, env})
	}
	sort.Slice(out, func(i, j int) bool { return bytes.Compare(out[i].id[:], out[j].id[:]) < 0 })
	ext := types.TicketsExtrinsic{}
	for _, x := range out {
		ext = append(ext, x.env)
	}
	return ext
}
