//go:build verif

// Full-parameter-set probe of the C35 check. Every history of H4 runs the tiny parameter set (6 validators): a
// threshold of the vote-split classification that is right for V = 6 and wrong for V = 1023 (a constant evaluated
// too early, a narrow intermediate type, a rounding that only shows with V not a multiple of 3) would never be
// met. The parameter set is a configuration of the node, so one C35 run in six ALSO drives the disputes transition
// (extrinsic.Disputes, the body of the disputes stage) under the full set with 1023 real Ed25519 validators: verdicts
// of 683 judgements with every allowed and some forbidden numbers of positive votes, the culprits / faults each
// kind requires, judged reports pending on cores. The oracle is the same reference as in the histories (checkC35)
// plus "a forbidden count is refused" / "an allowed count is not refused for its count".
package h4chain_test

import (
	"bytes"
	"crypto/ed25519"
	"sort"
	"strings"
	"sync"

	"github.com/New-JAMneration/JAM-Protocol/internal/blockchain"
	"github.com/New-JAMneration/JAM-Protocol/internal/extrinsic"
	"github.com/New-JAMneration/JAM-Protocol/internal/types"
	DisputesErrorCode "github.com/New-JAMneration/JAM-Protocol/internal/types/error_codes/disputes"
	"github.com/New-JAMneration/JAM-Protocol/internal/zzverif/sim"
)

var fullSet struct {
	once sync.Once
	priv []ed25519.PrivateKey
	data types.ValidatorsData
}

func fullSpecDisputesProbe(r *sim.Run) {
	t := r.T
	types.SetFullMode()
	defer types.SetTinyMode()
	V := types.ValidatorsCount
	fullSet.once.Do(func() {
		fullSet.priv = make([]ed25519.PrivateKey, V)
		fullSet.data = make(types.ValidatorsData, V)
		for i := 0; i < V; i++ {
			seed := h256([]byte{byte(i), byte(i >> 8), 0xF5})
			fullSet.priv[i] = ed25519.NewKeyFromSeed(seed[:])
			copy(fullSet.data[i].Ed25519[:], fullSet.priv[i].Public().(ed25519.PublicKey))
		}
	})
	sign := func(i int, ctx string, target types.WorkReportHash) (s types.Ed25519Signature) {
		copy(s[:], ed25519.Sign(fullSet.priv[i], append([]byte(ctx), target[:]...)))
		return
	}
	blockchain.ResetInstance()
	defer blockchain.ResetInstance()
	cs := blockchain.GetInstance()
	tau := types.TimeSlot(types.EpochLength*(1+t.Choose(3, "fs_epoch")) + t.Choose(types.EpochLength, "fs_slot_in_epoch"))
	prior := &types.State{}
	prior.Tau = tau
	prior.Kappa, prior.Lambda = fullSet.data, fullSet.data
	prior.Psi = types.DisputesRecords{Good: []types.WorkReportHash{}, Bad: []types.WorkReportHash{}, Wonky: []types.WorkReportHash{}, Offenders: []types.Ed25519Public{}}
	prior.Rho = make(types.AvailabilityAssignments, types.CoresCount)
	need := V*2/3 + 1
	nVerdicts := 1 + t.Choose(2, "fs_nverdicts")
	d := types.DisputesExtrinsic{Verdicts: []types.Verdict{}, Culprits: []types.Culprit{}, Faults: []types.Fault{}}
	forbidden := -1
	blame := need // validators that did not vote are blamed (indices need .. V-1)
	for k := 0; k < nVerdicts; k++ {
		// a pending report that the verdict is about (on some core; judged bad / wonky it must leave the core)
		var w types.WorkReport
		w.CoreIndex = types.CoreIndex(t.Choose(types.CoresCount, "fs_core"))
		w.PackageSpec.Hash = types.WorkPackageHash(h256([]byte{byte(k), 0xD1}, t.Bytes(2, "fs_pkg")))
		w.AuthOutput = types.ByteSequence{}
		w.Context.Prerequisites = []types.OpaqueHash{}
		w.SegmentRootLookup = types.SegmentRootLookup{}
		w.Results = []types.WorkResult{{Result: types.WorkExecResult{Type: types.WorkExecResultOk, Data: []byte{byte(k)}}}}
		target := reportHash(&w)
		if prior.Rho[w.CoreIndex] == nil && t.Prob(2, 3, "fs_pending") {
			prior.Rho[w.CoreIndex] = &types.AvailabilityAssignment{Report: w, AssignedSlot: tau}
		}
		kind := t.Pick([]int{2, 2, 3, 3}, "fs_kind") // good, bad, wonky, forbidden count
		pos := []int{need, 0, V / 3, 0}[kind]
		if kind == 3 {
			pos = []int{1, 2, V/3 - 1, V/3 + 1, need - 1, V / 2, 5}[t.Choose(7, "fs_forbidden_count")]
			forbidden = pos
		}
		// which of the voters are the positive ones: the first or the last `pos` (positions must not matter)
		fromEnd := t.Bool("fs_positive_from_end")
		v := types.Verdict{Target: target, Age: types.U32(tau) / types.U32(types.EpochLength)}
		for i := 0; i < need; i++ {
			vote := i < pos
			if fromEnd {
				vote = i >= need-pos
			}
			ctx := types.JamInvalid
			if vote {
				ctx = types.JamValid
			}
			v.Votes = append(v.Votes, types.Judgement{Vote: vote, Index: types.ValidatorIndex(i), Signature: sign(i, ctx, target)})
		}
		d.Verdicts = append(d.Verdicts, v)
		switch kind {
		case 0:
			d.Faults = append(d.Faults, types.Fault{Target: target, Vote: false, Key: fullSet.data[blame].Ed25519, Signature: sign(blame, types.JamInvalid, target)})
			blame++
		case 1:
			for c := 0; c < 2; c++ {
				d.Culprits = append(d.Culprits, types.Culprit{Target: target, Key: fullSet.data[blame].Ed25519, Signature: sign(blame, types.JamGuarantee, target)})
				blame++
			}
		}
	}
	sort.Slice(d.Verdicts, func(i, j int) bool { return bytes.Compare(d.Verdicts[i].Target[:], d.Verdicts[j].Target[:]) < 0 })
	sort.Slice(d.Culprits, func(i, j int) bool { return bytes.Compare(d.Culprits[i].Key[:], d.Culprits[j].Key[:]) < 0 })
	sort.Slice(d.Faults, func(i, j int) bool { return bytes.Compare(d.Faults[i].Key[:], d.Faults[j].Key[:]) < 0 })
	ps := cs.GetPriorStates()
	ps.SetKappa(prior.Kappa)
	ps.SetLambda(prior.Lambda)
	ps.SetTau(prior.Tau)
	ps.SetPsi(prior.Psi)
	ps.SetRho(prior.Rho)
	blk := types.Block{Header: types.Header{Slot: tau + 1}, Extrinsic: types.Extrinsic{Disputes: d}}
	cs.AddBlock(blk)
	_, err := extrinsic.Disputes()
	r.Count("probe:disputes_evaluated_under_full_parameter_set", 1)
	if err != nil {
		msg := err.Error()
		if code, ok := err.(*types.ErrorCode); ok && code != nil {
			msg = DisputesErrorCode.DisputesErrorCodeMessages[*code]
		}
		if forbidden >= 0 {
			r.Count("probe:full_set_forbidden_vote_count_refused", 1)
			return
		}
		if strings.Contains(msg, "vote split") {
			r.Violate("C35", "classification", "full-spec-verdict-with-allowed-vote-count-refused", "full parameter set (%d validators): every verdict has 0, %d (one third) or %d (two thirds plus one) positive votes, but the block is refused: %s", V, V/3, need, msg)
			return
		}
		r.Count("byproduct:full_set_disputes_refused_for_another_reason:"+strings.ReplaceAll(msg, " ", "_"), 1)
		return
	}
	if forbidden >= 0 {
		r.Violate("C35", "vote-count", "full-spec-verdict-with-other-vote-count-accepted", "full parameter set (%d validators): a verdict with %d positive votes (allowed: 0, %d, %d) was accepted", V, forbidden, V/3, need)
		return
	}
	post := &types.State{}
	post.Psi = cs.GetPosteriorStates().GetPsi()
	post.Rho = cs.GetIntermediateStates().GetRhoDagger()
	checkC35(r, &chainBlock{block: blk}, prior, post)
}
