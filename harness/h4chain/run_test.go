//go:build verif

// H4 chain-sim: the node (fuzz service -> STF -> chain state) under block
// histories with faults. One run:
//
//	phase A  the author builds a block tree (main chain + forks) on a scratch incarnation;
//	phase B  oracle: for every block ever delivered, a FRESH incarnation imports exactly
//	         path(parent) + block and its answer (accept/reject, root, key-values) is recorded;
//	phase C  node under test N1 (one more fresh incarnation) receives the faulty history:
//	         invalid blocks rejected at different STF stages, retries, siblings, children of
//	         rejected blocks, restarts from exported state – and must answer like the oracle.
//
// Independent reference models (ref_test.go) judge each accepted block's transition.
package h4chain_test

import (
	"bytes"
	"fmt"
	"os"
	"sort"
	"strings"
	"testing"

	"github.com/New-JAMneration/JAM-Protocol/internal/blockchain"
	"github.com/New-JAMneration/JAM-Protocol/internal/fuzz"
	"github.com/New-JAMneration/JAM-Protocol/internal/types"
	"github.com/New-JAMneration/JAM-Protocol/internal/utilities/merklization"
	"github.com/New-JAMneration/JAM-Protocol/internal/zzverif/sim"
	"github.com/New-JAMneration/JAM-Protocol/internal/zzverif/simrt"
)

// ---------------------------------------------------------------------------
// node wrapper (one incarnation at a time: the chain state is a process-wide singleton)
// ---------------------------------------------------------------------------

type node struct {
	svc    fuzz.FuzzServiceStub
	r      *sim.Run
	panics int
}

func (n *node) setState(h types.Header, kvs types.StateKeyVals, anc types.Ancestry) (root types.StateRoot, err error) {
	defer func() {
		if v := recover(); v != nil {
			n.panics++
			err = fmt.Errorf("PANIC in SetState: %v", v)
		}
	}()
	return n.svc.SetState(h, kvs.DeepCopy(), anc)
}

func (n *node) importBlock(b types.Block) (root types.StateRoot, err error) {
	defer func() {
		if v := recover(); v != nil {
			n.panics++
			err = fmt.Errorf("PANIC in ImportBlock: %v", v)
		}
	}()
	return n.svc.ImportBlock(cloneBlock(b))
}

func (n *node) getState(h types.HeaderHash) (kvs types.StateKeyVals, err error) {
	defer func() {
		if v := recover(); v != nil {
			n.panics++
			err = fmt.Errorf("PANIC in GetState: %v", v)
		}
	}()
	return n.svc.GetState(h)
}

// cloneBlock round-trips the block through the codec so that the node never shares memory with the harness.
func cloneBlock(b types.Block) types.Block {
	enc := types.NewEncoder()
	raw, err := enc.Encode(&b)
	if err != nil {
		panic("encode block: " + err.Error())
	}
	var out types.Block
	if err := types.NewDecoder().Decode(raw, &out); err != nil {
		panic("decode block: " + err.Error())
	}
	return out
}

func kvString(kvs types.StateKeyVals) string {
	s := make([]string, len(kvs))
	for i, kv := range kvs {
		s[i] = fmt.Sprintf("%x=%x", kv.Key[:], []byte(kv.Value))
	}
	sort.Strings(s)
	return strings.Join(s, "\n")
}

func kvDiff(a, b types.StateKeyVals) string {
	am, bm := map[types.StateKey][]byte{}, map[types.StateKey][]byte{}
	for _, kv := range a {
		am[kv.Key] = kv.Value
	}
	for _, kv := range b {
		bm[kv.Key] = kv.Value
	}
	var d []string
	for k, v := range am {
		if w, ok := bm[k]; !ok {
			d = append(d, fmt.Sprintf("key %x only in first (%d bytes)", k[:6], len(v)))
		} else if !bytes.Equal(v, w) {
			d = append(d, fmt.Sprintf("key %x differs (%d vs %d bytes)", k[:6], len(v), len(w)))
		}
	}
	for k, v := range bm {
		if _, ok := am[k]; !ok {
			d = append(d, fmt.Sprintf("key %x only in second (%d bytes)", k[:6], len(v)))
		}
	}
	sort.Strings(d)
	if len(d) > 6 {
		d = append(d[:6], fmt.Sprintf("… %d more", len(d)-6))
	}
	return strings.Join(d, "; ")
}

func keysStr(v types.ValidatorsData) string {
	s := ""
	for _, x := range v {
		s += fmt.Sprintf("%x ", x.Ed25519[:2])
	}
	return "[" + s + "]"
}

func parseState(kvs types.StateKeyVals) *types.State {
	st, _, err := merklization.StateKeyValsToState(kvs.DeepCopy())
	if err != nil {
		return nil
	}
	return &st
}

// ---------------------------------------------------------------------------
// the run
// ---------------------------------------------------------------------------

type run struct {
	r   *sim.Run
	t   *sim.Tape
	g   *genesis
	a   *author
	gen *chainBlock
	all []*chainBlock // every valid block of the tree, creation order
	// workload mix of this run (swarm): many tickets in consecutive slots
	ticketHeavy bool
	// set while a to-be-damaged sibling is planned
	moreDisputes bool
	reportSeq    int
	minSlot      types.TimeSlot // lower bound for the slot of the block being planned
}

func path(b *chainBlock) []*chainBlock {
	var p []*chainBlock
	for x := b; x != nil && x.parent != nil; x = x.parent {
		p = append([]*chainBlock{x}, p...)
	}
	return p
}

// freshNode starts a new incarnation from the genesis export.
func (ru *run) freshNode() (*node, types.StateRoot, error) {
	n := &node{r: ru.r}
	var anc types.Ancestry
	if ru.g.withAncestry {
		anc = types.Ancestry{{Slot: ru.g.header.Slot, HeaderHash: headerHash(ru.g.header)}}
	}
	root, err := n.setState(ru.g.header, ru.g.kvs, anc)
	return n, root, err
}

// oracle imports exactly path(parent)+block on a fresh incarnation and records the answer.
func (ru *run) oracle(b *chainBlock) {
	if b.oracleDone {
		return
	}
	n, _, err := ru.freshNode()
	if err != nil {
		panic("oracle SetState failed: " + err.Error())
	}
	anc := b.parent
	for anc != nil && anc.mutated != "" {
		anc = anc.parent // a clean node never saw the rejected ancestor of an orphan
	}
	for _, p := range path(anc) {
		if p.oracleDone && !p.accepted {
			// an ancestor is not accepted by a fresh node (the author built it on the scratch node's view):
			// nothing below it can be reached on a clean node
			b.oracleDone, b.accepted, b.errText = true, false, "ancestor not accepted on a fresh node"
			return
		}
		root, err := n.importBlock(p.block)
		if err != nil || (p.oracleDone && root != p.root) {
			// the same valid sequence on two fresh nodes must give identical roots
			ru.r.Violate("C26", "fresh-nodes-differ", "same-sequence-different-result-on-fresh-nodes", "block %x (depth %d) imported on a fresh node: err=%v root=%x, an earlier fresh node had root=%x", p.hash[:4], p.depth, err, root[:4], p.root[:4])
			return
		}
	}
	root, err := n.importBlock(b.block)
	b.oracleDone = true
	ru.r.Count("oracle_imports", int64(len(path(b))))
	if err != nil {
		b.accepted = false
		b.errText = err.Error()
		return
	}
	b.accepted = true
	b.root = root
	kvs, err := n.getState(b.hash)
	if err != nil {
		panic("oracle GetState failed: " + err.Error())
	}
	b.kvs = kvs
	b.state = parseState(kvs)
}

func runOne(r *sim.Run) {
	t := r.T
	if r.Prop == "C14" {
		runTransport(r)
		return
	}
	ru := &run{r: r, t: t, a: newAuthor()}
	// map iteration order inside the state codec (instrumented `range` over maps): a permutation that is a pure
	// function of one tape value, the site and the map size (the codec ranges over maps from several goroutines,
	// so a call counter would not be deterministic) - never Go's own randomised order
	orderSeed := uint64(t.Choose(1<<16, "map_order_seed"))
	ms := simrt.New(t.Choose)
	ms.MapOrder = func(n int, site string) []int {
		x := orderSeed*0x9E3779B97F4A7C15 ^ uint64(n)*0xBF58476D1CE4E5B9
		for _, c := range []byte(site) {
			x = (x ^ uint64(c)) * 0x100000001B3
		}
		p := make([]int, n)
		for i := range p {
			p[i] = i
		}
		if orderSeed%4 == 0 {
			return p // sorted order in a quarter of the runs
		}
		for i := n - 1; i > 0; i-- {
			x ^= x >> 12
			x ^= x << 25
			x ^= x >> 27
			j := int((x * 0x2545F4914F6CDD1D) >> 33 % uint64(i+1))
			p[i], p[j] = p[j], p[i]
		}
		return p
	}
	ms.Attach()
	defer ms.Detach()
	if r.Prop == "C23" && t.Prob(1, 4, "full_spec_probe") {
		fullSpecSealerProbe(r)
		if r.Violated() {
			return
		}
	}
	if r.Prop == "C35" && t.Prob(1, 6, "full_spec_disputes_probe") {
		fullSpecDisputesProbe(r)
		if r.Violated() {
			return
		}
	}
	ru.g = mkGenesis(t)
	if ru.g.specialIDs > 0 {
		r.Count("probe:service_id_with_special_octets", int64(ru.g.specialIDs))
	}
	if ru.g.bigStatistics {
		r.Count("probe:genesis_statistics_with_large_numbers", 1)
	}
	if ru.g.alwaysAcc {
		r.Count("probe:always_accumulate_service_in_genesis", 1)
	}
	if ru.g.lateSlot {
		r.Count("probe:history_starts_at_a_late_slot", 1)
	}
	if ru.g.longLived {
		r.Count("probe:genesis_is_a_snapshot_of_a_long_lived_chain", 1)
	}
	if ru.g.manySolicited > 0 {
		r.Count("probe:hundreds_of_solicited_preimages_in_genesis", 1)
	}
	if ru.g.prefixTwins {
		r.Count("probe:storage_entries_sharing_an_8_octet_state_key_prefix", 1)
	}
	if ru.g.populous > 0 {
		r.Count("probe:populous_genesis_state", 1)
	}
	if ru.g.deepChain > 0 {
		r.Count("probe:deep_dependency_chain_in_ready_queue", 1)
	}
	if ru.g.permutedSets {
		r.Count("probe:validator_sets_in_different_orders", 1)
	}
	if ru.g.specialKeys > 0 {
		r.Count("probe:storage_state_key_with_special_second_octet", int64(ru.g.specialKeys))
	}
	// ---------------- phase A: author ----------------------------------------------------------
	scratch, root0, err := ru.freshNode()
	if err != nil {
		// the genesis key-values are the repository's own serialisation of a well-formed state: a node that
		// refuses to import them breaks the export/import round trip (C17); for the other properties nothing
		// can be decided without a node, which is an infrastructure failure, not a violation
		if r.Prop == "C17" {
			short := err.Error()
			if k := strings.Index(short, " of service ID"); k > 0 {
				short = short[:k]
			}
			if len(short) > 50 {
				short = short[:50]
			}
			r.Violate("C17", "import-refused", "well-formed-state-refused:"+short, "SetState refuses the serialisation (StateEncoder) of a well-formed generated state with services %v: %v", ru.g.svcIDs, err)
			return
		}
		panic("SetState(genesis) failed: " + err.Error())
	}
	gh := headerHash(ru.g.header)
	kv0, err := scratch.getState(gh)
	if err != nil {
		panic("GetState(genesis) failed: " + err.Error())
	}
	ru.gen = &chainBlock{hash: gh, valid: true, oracleDone: true, accepted: true, root: root0, kvs: kv0, state: parseState(kv0)}
	ru.gen.block.Header = ru.g.header
	ru.gen.ticketPicks = ru.g.prefill
	for i, id := range ru.g.prefillIDs {
		ru.a.owners[id] = ticketOwner{val: ru.g.prefill[i][0], attempt: uint8(ru.g.prefill[i][1])}
	}
	ru.ticketHeavy = t.Prob(1, 3, "ticket_heavy")
	if ru.gen.state == nil {
		panic("cannot parse genesis export")
	}
	// C17 at genesis: what the node exports is what it was given
	if r.Wants("C17") && kvString(kv0) != kvString(ru.g.kvs) {
		r.Violate("C17", "export", "genesis-export-differs-from-import", "GetState(genesis) differs from the key-values given to SetState: %s", kvDiff(ru.g.kvs, kv0))
		return
	}
	nBlocks := t.Range(3, 30, "nblocks")
	if r.Tier == "thorough" {
		nBlocks = t.Range(3, 60, "nblocks2")
	}
	head := ru.gen
	var lastAccepted *chainBlock // the block the scratch node imported last
	authorBugs := 0
	for i := 0; i < nBlocks && authorBugs < 6; i++ {
		parent := head
		fork := false
		if len(ru.all) > 1 && t.Prob(1, 8, "fork") {
			// sibling of the head or of a recent ancestor
			back := 1 + t.Choose(3, "fork_back")
			p := head
			for k := 0; k < back && p.parent != nil; k++ {
				p = p.parent
			}
			parent, fork = p, true
		}
		ru.minSlot = 0
		if ru.g.withAncestry && lastAccepted != nil && parent != lastAccepted {
			// a node that keeps an ancestry list refuses blocks older than the newest entry of that list
			ru.minSlot = lastAccepted.block.Header.Slot
		}
		plan := ru.planBlock(parent)
		b, err := ru.a.build(parent, plan)
		if err != nil {
			r.Count("author:cannot_build", 1)
			continue
		}
		cb := &chainBlock{block: b, hash: headerHash(b.Header), parent: parent, depth: parent.depth + 1, valid: true, ticketPicks: plan.ticketPicks, offenders: plan.offenders}
		dup := false
		for _, x := range ru.all {
			if x.hash == cb.hash {
				dup = true
			}
		}
		if dup {
			// the plan reproduced an existing block bit for bit; re-importing an accepted block is not part of any property
			r.Count("author:duplicate_block_skipped", 1)
			continue
		}
		root, err := scratch.importBlock(b)
		if err != nil {
			authorBugs++
			r.Count("author:block_rejected_by_scratch_node", 1)
			if short := err.Error(); true {
				if k := strings.Index(short, "0x"); k >= 0 && len(short) > k+24 {
					short = short[:k] + short[k+24:]
				}
				if len(short) > 60 {
					short = short[:60]
				}
				r.Count("author:rejected_because:"+short, 1)
			}
			if dbg := os.Getenv("VERIF_DEBUG_AUTHOR"); dbg != "" && strings.Contains(err.Error(), dbg) {
				// debugging aid for the harness author (never set by a registered command)
				r.Violate(r.Prop, "debug", "author-bug", "scratch node rejected the author's block at depth %d slot %d (parent depth %d slot %d, fork=%v, tickets=%d): %v", cb.depth, b.Header.Slot, parent.depth, parent.block.Header.Slot, fork, len(b.Extrinsic.Tickets), err)
				return
			}
			// C23: the slot-sealer sequence is prescribed by the property. A block whose author is exactly the validator
			// the prescribed sequence names for the slot, refused by a clean node BECAUSE OF ITS SEAL, means the node derived
			// another sequence (the node never gets to export it: the block that would carry it is refused)
			if r.Prop == "C23" && (strings.Contains(err.Error(), "BadSealSignature") || strings.Contains(err.Error(), "UnexpectedAuthor")) {
				if ok, kind := ru.sealedAsPrescribed(parent.state, &b); ok {
					e1, m1 := epochOf(parent.state.Tau)
					e2, _ := epochOf(b.Header.Slot)
					r.Violate("C23", "sealer-sequence", "block-of-prescribed-sealer-refused:"+kind, "block depth %d slot %d (epoch %d->%d, prior slot index %d, prior accumulator %d) is sealed by the validator the %s sealer sequence names for its slot, a clean node refuses it: %v", cb.depth, b.Header.Slot, e1, e2, m1, len(parent.state.Gamma.GammaA), kind, err)
					return
				}
			}
			// C35: "a verdict counts as good with a two-thirds-plus-one supermajority of positive votes, bad with none and
			// wonky with one third": a block whose verdicts all carry one of these three counts, refused because of its
			// vote split, was classified as "any other count"
			if r.Prop == "C35" && strings.Contains(strings.ReplaceAll(err.Error(), " ", "_"), "bad_vote_split") {
				allowed := len(b.Extrinsic.Disputes.Verdicts) > 0
				for _, v := range b.Extrinsic.Disputes.Verdicts {
					pos := 0
					for _, j := range v.Votes {
						if j.Vote {
							pos++
						}
					}
					if pos != 0 && pos != types.ValidatorsCount/3 && pos != types.ValidatorsCount*2/3+1 {
						allowed = false
					}
				}
				if allowed {
					r.Violate("C35", "classification", "verdict-with-allowed-vote-count-refused", "block depth %d slot %d: every verdict has 0, one third or two thirds plus one positive votes, a clean node refuses the block: %v", cb.depth, b.Header.Slot, err)
					return
				}
			}
			plain := merklization.MerklizationSerializedState(parent.kvs)
			r.Logf("author bug? scratch node rejected block at depth %d slot %d (parent depth %d root %x, uncached root of parent export %x): %v", cb.depth, b.Header.Slot, parent.depth, parent.root[:4], plain[:4], err)
			// the scratch node may now be in the state a rejected block leaves behind: start it again from the parent path
			scratch, _, _ = ru.freshNode()
			for _, p := range path(head) {
				scratch.importBlock(p.block)
			}
			lastAccepted = head
			continue
		}
		cb.root = root
		lastAccepted = cb
		kvs, err := scratch.getState(cb.hash)
		if err != nil {
			panic("scratch GetState failed: " + err.Error())
		}
		cb.kvs, cb.state = kvs, parseState(kvs)
		if cb.state == nil {
			panic("cannot parse exported state")
		}
		if n := len(cb.state.Delta) - len(parent.state.Delta); n > 0 {
			r.Count("probe:service_account_born_on_chain", int64(n))
		}
		// diagnostic (by-product): does the node's in-memory prior state still encode to what it committed?
		{
			cs := blockchain.GetInstance()
			mem, _ := merklization.StateEncoder(cs.GetPriorStates().GetState())
			memAll := append(append(types.StateKeyVals(nil), mem...), cs.GetPriorStateUnmatchedKeyVals()...)
			if kvString(memAll) != kvString(kvs) {
				r.Count("byproduct:in_memory_state_differs_from_committed_state", 1)
				r.Logf("by-product: after block depth %d slot %d the in-memory prior state differs from the committed key-values: %s", cb.depth, b.Header.Slot, kvDiff(kvs, memAll))
			}
		}
		ru.all = append(ru.all, cb)
		if fork {
			r.Count("fault:fork_sibling_built", 1)
			if t.Bool("fork_takes_over") {
				head = cb
			} else {
				// the author goes back to the old head: the scratch node follows through its own restore path
			}
		} else {
			head = cb
		}
	}
	if len(ru.all) < 2 {
		r.Discard("author produced fewer than two blocks")
		return
	}
	// ---------------- phase B: oracle for every valid block -----------------------------------------
	for _, b := range ru.all {
		scratchRoot, scratchKVs := b.root, b.kvs
		b.oracleDone = false
		ru.oracle(b)
		if r.Violated() {
			return
		}
		if !b.accepted {
			r.Count("author:block_rejected_by_fresh_node", 1)
			r.Logf("block depth %d accepted by the scratch node but rejected on a fresh node: %s", b.depth, b.errText)
			b.valid = false
			continue
		}
		if b.root != scratchRoot || kvString(b.kvs) != kvString(scratchKVs) {
			// not claimed by any property (the scratch node has seen other valid branches; a fresh node importing
			// only path(b) disagrees): counted as a by-product, the fresh node's answer is what the checks use
			r.Count("byproduct:valid_block_result_depends_on_other_branches", 1)
			r.Logf("by-product: block %x depth %d: scratch node (saw other valid branches) root %x, fresh node importing only its ancestry %x (%s)", b.hash[:4], b.depth, scratchRoot[:4], b.root[:4], kvDiff(scratchKVs, b.kvs))
			if ss := parseState(scratchKVs); ss != nil && b.state != nil {
				r.Logf("  scratch kappa=%s gammaK=%s psiO=%d | fresh kappa=%s gammaK=%s psiO=%d | parent gammaK=%s iota=%s psiO=%d", keysStr(ss.Kappa), keysStr(ss.Gamma.GammaK), len(ss.Psi.Offenders), keysStr(b.state.Kappa), keysStr(b.state.Gamma.GammaK), len(b.state.Psi.Offenders), keysStr(b.parent.state.Gamma.GammaK), keysStr(b.parent.state.Iota), len(b.parent.state.Psi.Offenders))
			}
		}
	}
	// reference models over every accepted block
	for _, b := range ru.all {
		if b.valid && b.accepted && b.parent != nil && b.parent.state != nil {
			checkTransition(r, ru, b)
			if r.Violated() {
				return
			}
		}
	}
	// ---------------- phase C: node under test with faults -------------------------------------------
	ru.phaseC()
	nValid := 0
	for _, b := range ru.all {
		if b.valid && b.accepted {
			nValid++
		}
	}
	if nValid >= 3 {
		r.Nontrivial()
	}
	for _, b := range ru.all {
		if b.valid && b.accepted && b.parent != nil && b.parent.state != nil && len(refAvailable(b.parent.state, &b.block)) > 0 {
			r.Count("probe:reports_became_available_in_history", 1)
		}
	}
	r.Shape(uint64(nValid)<<16 ^ uint64(len(ru.all)))
	r.Summary("genesis tau=%d services=%d; %d valid blocks (max depth %d), head slot %d", ru.g.state.Tau, len(ru.g.svcIDs), nValid, head.depth, head.block.Header.Slot)
}

func TestVerifH4(t *testing.T) {
	os.Setenv("JAM_FUZZ", "1")
	blockchain.ResetInstance()
	ok, msg := sim.WorkerMain(runOne)
	if !ok {
		t.Fatal(msg)
	}
	if msg != "" {
		t.Log(msg)
	}
}
