//go:build verif

package h4chain_test

import (
	"bytes"
	"crypto/ed25519"
	"sort"

	"github.com/New-JAMneration/JAM-Protocol/internal/types"
	"github.com/New-JAMneration/JAM-Protocol/internal/utilities/merklization"
)

// planBlock chooses the slot and the extrinsics of the next block on top of parent.
func (ru *run) planBlock(parent *chainBlock) blockPlan {
	t := ru.t
	st := parent.state
	var plan blockPlan
	gap := 1
	gapWeights := []int{10, 3, 1, 1}
	if ru.ticketHeavy {
		gapWeights = []int{30, 2, 1, 0}
	}
	switch t.Pick(gapWeights, "gap") {
	case 1:
		gap = 1 + t.Choose(4, "gap_small")
	case 2: // jump to / over an epoch boundary
		_, m := epochOf(st.Tau)
		gap = types.EpochLength - int(m) + t.Choose(3, "gap_epoch")
	case 3: // skip more than a whole epoch
		gap = types.EpochLength + 1 + t.Choose(types.EpochLength, "gap_big")
	}
	// the corner of the sealer-sequence rule: a full accumulator whose epoch ends (submission window closed) and
	// is followed by a block one epoch later (tickets decide) or MORE than one epoch later (fallback keys decide)
	if len(st.Gamma.GammaA) == types.EpochLength {
		_, m := epochOf(st.Tau)
		switch {
		case int(m) < types.SlotSubmissionEnd && t.Prob(1, 4, "full_acc_close_window"):
			gap = types.SlotSubmissionEnd - int(m) + t.Choose(types.EpochLength-types.SlotSubmissionEnd, "full_acc_tail")
		case int(m) >= types.SlotSubmissionEnd && t.Prob(1, 3, "full_acc_skip_epoch"):
			gap = 2*types.EpochLength - int(m) + t.Choose(types.EpochLength, "full_acc_skip")
			ru.r.Count("probe:full_accumulator_closed_window_then_skipped_epoch", 1)
		}
	}
	plan.slot = st.Tau + types.TimeSlot(gap)
	if plan.slot < ru.minSlot {
		plan.slot = ru.minSlot
	}
	_, m2 := epochOf(plan.slot)
	// disputes first: at an epoch change this block's new offenders are already missing from the ticket ring
	ru.planDisputes(parent, &plan)
	// tickets: only before the end of the submission window
	if int(m2) < types.SlotSubmissionEnd && (t.Prob(2, 3, "tickets") || ru.ticketHeavy) {
		n := 1 + t.Choose(types.MaxTicketsPerBlock, "ntickets")
		if ru.ticketHeavy && t.Prob(3, 4, "max_tickets") {
			n = types.MaxTicketsPerBlock
		}
		var picks [][2]int
		var free [][2]int // (validator, attempt) pairs not yet submitted in this epoch on this branch
		for v := 0; v < types.ValidatorsCount; v++ {
			for a := 0; a < types.TicketsPerValidator; a++ {
				if p := [2]int{v, a}; !ru.ticketUsed(parent, plan.slot, p) {
					free = append(free, p)
				}
			}
		}
		for i := 0; i < n && len(free) > 0; i++ {
			k := t.Choose(len(free), "tpick")
			picks = append(picks, free[k])
			free = append(free[:k], free[k+1:]...)
		}
		plan.ext.Tickets = ru.a.mkTickets(st, plan.slot, picks, plan.offenders...)
		plan.ticketPicks = picks
	}
	ru.planPreimages(parent, &plan)
	ru.planReports(parent, &plan)
	return plan
}

// ticketUsed: a (validator, attempt) pair gives the same identifier within one epoch; it must not be
// submitted twice (the accumulator must stay duplicate-free) – unless the epoch changed.
func (ru *run) ticketUsed(parent *chainBlock, slot types.TimeSlot, p [2]int) bool {
	e2, _ := epochOf(slot)
	for x := parent; x != nil; x = x.parent { // down to and including genesis (tickets placed in the genesis accumulator)
		e, _ := epochOf(x.block.Header.Slot)
		if e != e2 {
			break
		}
		for _, used := range x.ticketPicks {
			if used == p {
				return true
			}
		}
	}
	return false
}

// rawLookup reads the availability record of (service, hash, length) straight from exported key-values: the state
// parser can attribute a lookup entry to its service only when the preimage itself is stored, so solicited-and-
// unprovided entries exist in an export only as raw entries.
func rawLookup(kvs types.StateKeyVals, sid types.ServiceID, key types.LookupMetaMapkey) (slots []types.TimeSlot, present bool) {
	want := merklization.EncodeDelta4Key(sid, key)
	for _, kv := range kvs {
		if kv.Key != want {
			continue
		}
		v := []byte(kv.Value)
		if len(v) == 0 || int(v[0]) > 3 || len(v) != 1+4*int(v[0]) {
			return nil, false
		}
		for i := 0; i < int(v[0]); i++ {
			slots = append(slots, types.TimeSlot(uint32(v[1+4*i])|uint32(v[2+4*i])<<8|uint32(v[3+4*i])<<16|uint32(v[4+4*i])<<24))
		}
		return slots, true
	}
	return nil, false
}

// solicitedOpen returns, per service (ascending), the blobs that are solicited and not yet provided in the state of b.
func (ru *run) solicitedOpen(b *chainBlock) map[types.ServiceID][][]byte {
	out := map[types.ServiceID][][]byte{}
	for sid, blobs := range ru.g.solicited {
		if _, ok := b.state.Delta[sid]; !ok {
			continue
		}
		for _, blob := range blobs {
			ts, has := rawLookup(b.kvs, sid, types.LookupMetaMapkey{Hash: h256(blob), Length: types.U32(len(blob))})
			if has && len(ts) == 0 {
				out[sid] = append(out[sid], blob)
			}
		}
	}
	return out
}

func sortPreimages(p types.PreimagesExtrinsic) {
	sort.Slice(p, func(i, j int) bool {
		if p[i].Requester != p[j].Requester {
			return p[i].Requester < p[j].Requester
		}
		return bytes.Compare(p[i].Blob, p[j].Blob) < 0
	})
}

func (ru *run) planPreimages(parent *chainBlock, plan *blockPlan) {
	t := ru.t
	if !t.Prob(1, 3, "preimages") && !(ru.r.Prop == "C31" && t.Prob(1, 2, "preimages_c31")) {
		return
	}
	open := ru.solicitedOpen(parent)
	var ext types.PreimagesExtrinsic
	for _, sid := range ru.g.svcIDs {
		for _, b := range open[sid] {
			if t.Bool("provide") {
				ext = append(ext, types.Preimage{Requester: sid, Blob: append(types.ByteSequence(nil), b...)})
			}
		}
	}
	sortPreimages(ext)
	plan.ext.Preimages = ext
}

func edSign(v *valKey, msg []byte) (s types.Ed25519Signature) {
	copy(s[:], ed25519.Sign(v.edPriv, msg))
	return
}

// planDisputes: verdicts with real Ed25519 votes by current/previous-epoch validators, with the
// culprits/faults each verdict kind requires.
func (ru *run) planDisputes(parent *chainBlock, plan *blockPlan) {
	t := ru.t
	if ru.moreDisputes {
		if !t.Prob(1, 2, "disputes_sibling") {
			return
		}
	} else if !t.Prob(1, 5, "disputes") {
		return
	}
	st := parent.state
	if len(st.Psi.Offenders) >= 2 {
		// keep enough validators with keys for the chain to go on (an offender's keys are zeroed at the next epoch)
		return
	}
	e, _ := epochOf(st.Tau)
	judged := map[types.WorkReportHash]bool{}
	for _, l := range [][]types.WorkReportHash{st.Psi.Good, st.Psi.Bad, st.Psi.Wonky} {
		for _, h := range l {
			judged[h] = true
		}
	}
	offender := map[types.Ed25519Public]bool{}
	for _, o := range st.Psi.Offenders {
		offender[o] = true
	}
	var d types.DisputesExtrinsic
	var blamedAsCulprit, blamedForFault []*valKey // in this block
	nv := 1 + t.Choose(2, "nverdicts")
	for i := 0; i < nv; i++ {
		var target types.WorkReportHash
		th := h256([]byte{byte(parent.depth), byte(i), byte(t.Choose(250, "target"))})
		copy(target[:], th[:])
		var pending []types.WorkReportHash
		for _, a := range st.Rho {
			if a != nil {
				pending = append(pending, reportHash(&a.Report))
			}
		}
		if len(pending) > 0 && t.Prob(1, 2, "judge_pending_report") {
			target = pending[t.Choose(len(pending), "which_pending")]
		}
		if judged[target] {
			continue
		}
		judged[target] = true
		age := types.U32(e)
		set := st.Kappa
		if e > 0 && t.Prob(1, 3, "prev_epoch_age") {
			age, set = types.U32(e)-1, st.Lambda
		}
		kind := t.Choose(3, "verdict_kind") // 0 good, 1 bad, 2 wonky
		positives := []int{types.ValidatorsCount*2/3 + 1, 0, types.ValidatorsCount / 3}[kind]
		var voters []int
		for idx := range set {
			if valByEd(set[idx].Ed25519) != nil {
				voters = append(voters, idx)
			}
		}
		need := types.ValidatorsCount*2/3 + 1
		if len(voters) < need {
			continue
		}
		voters = voters[:need]
		v := types.Verdict{Target: target, Age: age}
		for k, idx := range voters {
			vote := k < positives
			msg := append([]byte(types.JamInvalid), target[:]...)
			if vote {
				msg = append([]byte(types.JamValid), target[:]...)
			}
			v.Votes = append(v.Votes, types.Judgement{Vote: vote, Index: types.ValidatorIndex(idx), Signature: edSign(valByEd(set[idx].Ed25519), msg)})
		}
		// who can be blamed: validators of kappa/lambda that are not offenders yet and not blamed in this block
		var cands []*valKey
		for i := range validators {
			k := validators[i].pub.Ed25519
			inSet := false
			for _, x := range append(append(types.ValidatorsData(nil), st.Kappa...), st.Lambda...) {
				if x.Ed25519 == k {
					inSet = true
				}
			}
			if inSet && !offender[k] {
				cands = append(cands, &validators[i])
			}
		}
		switch kind {
		case 1: // bad: at least two culprits
			if len(cands) < 2 {
				continue
			}
			pick := cands[:2]
			// one validator may be blamed twice in one block - as a culprit of one report and for a fault on another:
			// it is ONE new offender
			if len(blamedForFault) > 0 && t.Prob(1, 2, "culprit_is_also_at_fault") {
				pick = []*valKey{blamedForFault[0], cands[0]}
				ru.r.Count("fault:same_validator_culprit_and_fault_in_one_block", 1)
			}
			for _, c := range pick {
				d.Culprits = append(d.Culprits, types.Culprit{Target: target, Key: c.pub.Ed25519, Signature: edSign(c, append([]byte(types.JamGuarantee), target[:]...))})
				offender[c.pub.Ed25519] = true
				blamedAsCulprit = append(blamedAsCulprit, c)
			}
		case 0: // good: at least one fault (somebody who declared it invalid)
			if len(cands) < 1 && len(blamedAsCulprit) == 0 {
				continue
			}
			var c *valKey
			if len(blamedAsCulprit) > 0 && (len(cands) < 1 || t.Prob(1, 2, "fault_by_a_culprit")) {
				c = blamedAsCulprit[0]
				ru.r.Count("fault:same_validator_culprit_and_fault_in_one_block", 1)
			} else {
				c = cands[len(cands)-1]
			}
			d.Faults = append(d.Faults, types.Fault{Target: target, Vote: false, Key: c.pub.Ed25519, Signature: edSign(c, append([]byte(types.JamInvalid), target[:]...))})
			offender[c.pub.Ed25519] = true
			blamedForFault = append(blamedForFault, c)
		}
		d.Verdicts = append(d.Verdicts, v)
	}
	sort.Slice(d.Verdicts, func(i, j int) bool { return bytes.Compare(d.Verdicts[i].Target[:], d.Verdicts[j].Target[:]) < 0 })
	sort.Slice(d.Culprits, func(i, j int) bool { return bytes.Compare(d.Culprits[i].Key[:], d.Culprits[j].Key[:]) < 0 })
	sort.Slice(d.Faults, func(i, j int) bool { return bytes.Compare(d.Faults[i].Key[:], d.Faults[j].Key[:]) < 0 })
	plan.ext.Disputes = d
	for _, c := range d.Culprits {
		plan.offenders = append(plan.offenders, c.Key)
	}
	for _, f := range d.Faults {
		plan.offenders = append(plan.offenders, f.Key)
	}
}
