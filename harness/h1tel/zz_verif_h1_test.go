//go:build verif

// H1 telemetry-sim (C28): the real tcpClient – emitters, writer, reader,
// connect loop, Close – runs as real goroutines inside a testing/synctest
// bubble with exactly one goroutine released at a time; the tape chooses who
// runs, when simulated time passes, what the dialer and the connection do
// (errors, torn/short writes, stalls, peer close) and what the emitters ask for.
// A receiver model parses every connection's byte stream afterwards.
package telemetry

import (
	"bytes"
	"context"
	"encoding/binary"
	"errors"
	"fmt"
	"io"
	"log"
	"net"
	"os"
	"sort"
	"strings"
	"testing"
	"testing/synctest"
	"time"

	"github.com/New-JAMneration/JAM-Protocol/internal/zzverif/sim"
	"github.com/New-JAMneration/JAM-Protocol/internal/zzverif/simrt"
)

const h1Prop = "C28"

// ---------------------------------------------------------------------------
// simulated connection
// ---------------------------------------------------------------------------

type simAddr struct{}

func (simAddr) Network() string { return "sim" }
func (simAddr) String() string  { return "sim" }

type h1Conn struct {
	h        *h1
	idx      int
	rx       []byte // what the receiver has got so far
	closedCh chan struct{}
	peerCh   chan struct{}
	closed   bool // closed by the client
	peerGone bool // closed by the peer
	broken   bool // a write failed: later writes fail too
	writeErr bool // some Write returned an error (a trailing partial frame is then legitimate)
	writes   int
	// write deadline, honoured like a real net.Conn does: a Write that is blocked when the deadline passes returns the
	// number of octets the peer had accepted so far and a timeout error; the connection stays usable
	wdeadline time.Time
	wdChanged chan struct{} // closed and replaced by every SetWriteDeadline: blocked writes look at the deadline again
}

type simTimeout struct{}

func (simTimeout) Error() string   { return "sim: i/o timeout" }
func (simTimeout) Timeout() bool   { return true }
func (simTimeout) Temporary() bool { return true }
func (simTimeout) Is(target error) bool {
	return target == os.ErrDeadlineExceeded
}

func (c *h1Conn) Read(p []byte) (int, error) {
	simrt.Yield("conn.read")
	select {
	case <-c.closedCh:
		simrt.Woke("conn.read:closed")
		return 0, net.ErrClosed
	case <-c.peerCh:
		simrt.Woke("conn.read:eof")
		return 0, io.EOF
	}
}

func (c *h1Conn) Write(p []byte) (int, error) {
	simrt.Yield("conn.write")
	h := c.h
	c.writes++
	fail := func(n int, err error) (int, error) {
		c.rx = append(c.rx, p[:n]...)
		c.writeErr = true
		c.broken = true
		h.r.Logf("  conn%d write(%d) -> %d, %v", c.idx, len(p), n, err)
		return n, err
	}
	if c.closed {
		return fail(0, net.ErrClosed)
	}
	if c.peerGone || c.broken {
		return fail(0, errors.New("sim: broken pipe"))
	}
	if !c.wdeadline.IsZero() && !time.Now().Before(c.wdeadline) {
		h.r.Logf("  conn%d write(%d) -> 0, timeout (deadline passed)", c.idx, len(p))
		c.writeErr = true
		return 0, simTimeout{}
	}
	switch h.t.Pick(h.writeFaultW, "wfault") {
	case 1: // short write, no error (io.Writer contract allows it for wrappers)
		if len(p) > 1 {
			n := 1 + h.t.Choose(len(p)-1, "short")
			c.rx = append(c.rx, p[:n]...)
			h.r.Count("fault:short_write", 1)
			h.r.Logf("  conn%d write(%d) -> short %d", c.idx, len(p), n)
			return n, nil
		}
	case 2: // error after k bytes (torn frame)
		k := h.t.Choose(len(p), "torn")
		h.r.Count("fault:write_error_torn", 1)
		return fail(k, errors.New("sim: connection reset"))
	case 3: // stall (slow receiver): the peer has taken the first k octets and then stops reading for a while
		d := h.stallDur()
		h.r.Count("fault:write_stall", 1)
		k := 0
		if h.t.Bool("stall_mid_write") {
			k = h.t.Choose(len(p), "stall_after")
			c.rx = append(c.rx, p[:k]...)
		}
		h.r.Logf("  conn%d write stalls %v after %d of %d octets", c.idx, d, k, len(p))
		h.stalled++
		t := time.NewTimer(d)
		for {
			var dl <-chan time.Time
			var dt *time.Timer
			if !c.wdeadline.IsZero() {
				dt = time.NewTimer(time.Until(c.wdeadline)) // fires at once when the deadline has passed
				dl = dt.C
			}
			changed := c.wdChanged
			select {
			case <-t.C:
				simrt.Woke("conn.write:stall-over")
				h.stalled--
				c.rx = append(c.rx, p[k:]...)
				return len(p), nil
			case <-c.closedCh:
				t.Stop()
				simrt.Woke("conn.write:closed-in-stall")
				h.stalled--
				h.r.Count("probe:close_during_stalled_write", 1)
				c.writeErr, c.broken = true, true
				h.r.Logf("  conn%d write(%d) -> %d, closed", c.idx, len(p), k)
				return k, net.ErrClosed
			case <-c.peerCh:
				t.Stop()
				simrt.Woke("conn.write:peer-closed-in-stall")
				h.stalled--
				c.writeErr, c.broken = true, true
				h.r.Logf("  conn%d write(%d) -> %d, broken pipe", c.idx, len(p), k)
				return k, errors.New("sim: broken pipe")
			case <-dl:
				t.Stop()
				simrt.Woke("conn.write:deadline-in-stall")
				h.stalled--
				h.r.Count("probe:write_deadline_expired_in_stalled_write", 1)
				h.r.Logf("  conn%d write(%d) -> %d, timeout", c.idx, len(p), k)
				c.writeErr = true // a Write returned an error: what follows on this connection may start mid-frame
				return k, simTimeout{}
			case <-changed:
				simrt.Woke("conn.write:deadline-changed")
				if dt != nil {
					dt.Stop()
				}
			}
		}
	}
	c.rx = append(c.rx, p...)
	return len(p), nil
}

func (c *h1Conn) Close() error {
	if !c.closed {
		c.closed = true
		close(c.closedCh)
		c.h.r.Logf("  conn%d closed by client", c.idx)
	}
	return nil
}
func (c *h1Conn) LocalAddr() net.Addr               { return simAddr{} }
func (c *h1Conn) RemoteAddr() net.Addr              { return simAddr{} }
func (c *h1Conn) SetDeadline(t time.Time) error     { return c.SetWriteDeadline(t) }
func (c *h1Conn) SetReadDeadline(t time.Time) error { return nil }
func (c *h1Conn) SetWriteDeadline(t time.Time) error {
	c.wdeadline = t
	close(c.wdChanged)
	c.wdChanged = make(chan struct{})
	return nil
}

// ---------------------------------------------------------------------------
// harness state
// ---------------------------------------------------------------------------

type emitRec struct {
	em, k   int
	kind    int // 0 Emit, 1 EmitLazy, 2 EmitFollowup, 3 EmitFollowupLazy
	parent  uint64
	ret     uint64
	done    bool
	deliver int // times seen on the wire
	pad     int // payload padding (-1: the usual few octets)
}

type emitter struct {
	idx    int
	g      *simrt.G
	inEmit bool
	nOps   int
	opIdx  int
}

type h1 struct {
	r *sim.Run
	t *sim.Tape
	s *simrt.Sched
	c *tcpClient

	conns       []*h1Conn
	emitters    []*emitter
	recs        []*emitRec
	returnedIDs []uint64 // every valid ID any emitter got back (parents are drawn from here)
	nodeInfo    []byte
	bigPayloads bool // this life of the client carries a few large events

	writeFaultW []int
	dialFaultW  []int
	stalled     int
	closeCalled bool
	closeDone   bool
	closeSteps  int
	panicked    string
	dials       int
}

func (h *h1) stallDur() time.Duration {
	return []time.Duration{time.Millisecond, 20 * time.Millisecond, 300 * time.Millisecond, 3 * time.Second, 20 * time.Second}[h.t.Choose(5, "stalldur")]
}

func (h *h1) dialer(ctx context.Context, addr string) (net.Conn, error) {
	simrt.Yield("dial")
	h.dials++
	mk := func() (net.Conn, error) {
		c := &h1Conn{h: h, idx: len(h.conns), closedCh: make(chan struct{}), peerCh: make(chan struct{}), wdChanged: make(chan struct{})}
		h.conns = append(h.conns, c)
		h.r.Logf("  dial #%d -> conn%d", h.dials, c.idx)
		return c, nil
	}
	switch h.t.Pick(h.dialFaultW, "dfault") {
	case 1:
		h.r.Count("fault:dial_error", 1)
		h.r.Logf("  dial #%d -> error", h.dials)
		return nil, errors.New("sim: connection refused")
	case 2: // hang until the context is cancelled (Close's force path) – bounded so a run without Close still ends
		h.r.Count("fault:dial_hang", 1)
		h.r.Logf("  dial #%d hangs", h.dials)
		t := time.NewTimer(2 * time.Minute)
		select {
		case <-ctx.Done():
			t.Stop()
			simrt.Woke("dial:cancelled")
			h.r.Count("probe:dial_cancelled_by_close", 1)
			return nil, ctx.Err()
		case <-t.C:
			simrt.Woke("dial:timeout")
			return nil, errors.New("sim: dial timeout")
		}
	case 3: // slow dial
		h.r.Count("fault:dial_slow", 1)
		t := time.NewTimer(h.stallDur())
		select {
		case <-ctx.Done():
			t.Stop()
			simrt.Woke("dial:cancelled")
			return nil, ctx.Err()
		case <-t.C:
			simrt.Woke("dial:slow-done")
		}
	}
	return mk()
}

// token: five identifying octets followed by padding. pad < 0 means the usual few octets; otherwise the event is a
// LARGE one (payloads around 64 KiB and 1 MiB: message-size limits, buffer growth, chunked writes).
func token(em, k, kind, pad int) []byte {
	b := []byte{'T', byte(em), byte(k), byte(k >> 8), byte(kind)}
	if pad < 0 {
		pad = k % 5
	}
	return append(b, bytes.Repeat([]byte{0xAB}, pad)...)
}

func (h *h1) emitterBody(e *emitter) {
	defer func() {
		if v := recover(); v != nil {
			h.panicked = fmt.Sprintf("emitter %d panicked inside an emit call: %v", e.idx, v)
			e.inEmit = false
		}
	}()
	for e.opIdx = 0; e.opIdx < e.nOps; e.opIdx++ {
		simrt.Yield("emitter.loop")
		t := h.t
		kind := t.Pick([]int{4, 2, 3, 2}, "emitkind")
		rec := &emitRec{em: e.idx, k: e.opIdx, kind: kind, pad: -1}
		if h.bigPayloads && t.Prob(1, 12, "big_payload") {
			rec.pad = []int{65530, 65536, 1<<20 - 14, 1<<20 - 13, 1 << 20, 1<<20 + 4096}[t.Choose(6, "big_payload_size")]
			h.r.Count("probe:event_with_large_payload", 1)
		}
		if kind >= 2 {
			switch pk := t.Pick([]int{6, 3, 1, 1}, "parentkind"); {
			case pk == 0 && len(h.returnedIDs) > 0: // most recent valid id
				rec.parent = h.returnedIDs[len(h.returnedIDs)-1]
			case pk == 1 && len(h.returnedIDs) > 0: // any earlier id (often stale)
				rec.parent = h.returnedIDs[t.Choose(len(h.returnedIDs), "whichparent")]
			case pk == 2:
				rec.parent = InvalidID
			default:
				rec.parent = 0
			}
		}
		h.recs = append(h.recs, rec)
		tok := token(e.idx, e.opIdx, kind, rec.pad)
		disc := uint8(1)
		if kind >= 2 {
			disc = 2
		}
		e.inEmit = true
		switch kind {
		case 0:
			rec.ret = h.c.Emit(disc, tok)
		case 1:
			rec.ret = h.c.EmitLazy(disc, func() []byte { return tok })
		case 2:
			rec.ret = h.c.EmitFollowup(disc, rec.parent, tok)
		case 3:
			rec.ret = h.c.EmitFollowupLazy(disc, rec.parent, func() []byte { return tok })
		}
		e.inEmit = false
		rec.done = true
		if rec.ret != InvalidID {
			h.returnedIDs = append(h.returnedIDs, rec.ret)
		}
		h.r.Logf("  em%d op%d kind%d parent=%#x -> %#x", e.idx, e.opIdx, kind, rec.parent, rec.ret)
		thinkNum := 1
		if rec.ret == InvalidID {
			thinkNum = 3 // not connected (or refused): usually wait a little before the next attempt
		}
		if t.Prob(thinkNum, 4, "think") {
			d := []time.Duration{time.Microsecond, time.Millisecond, 50 * time.Millisecond, 2 * time.Second}[t.Choose(4, "thinkdur")]
			time.Sleep(d)
			simrt.Woke("emitter.think")
		}
	}
}

// ---------------------------------------------------------------------------
// one run
// ---------------------------------------------------------------------------

func h1Run(tt *testing.T, r *sim.Run) {
	defer func() {
		if v := recover(); v != nil {
			msg := fmt.Sprint(v)
			if strings.Contains(msg, "deadlock") {
				// goroutines of the client outlived the run (counted, not a violation of C28)
				r.Count("leak:bubble_deadlock", 1)
				return
			}
			panic(v)
		}
	}()
	synctest.Test(tt, func(*testing.T) { h1Body(r) })
}

func h1Body(r *sim.Run) {
	t := r.T
	h := &h1{r: r, t: t}
	h.s = simrt.New(t.Choose)
	h.s.Attach()
	// Detach only when every simulated goroutine has exited: goroutines that
	// outlive the run must stay parked at their seams (a durable block), so that
	// the bubble ends in synctest's deadlock panic (recovered in h1Run) instead
	// of free-running – a corrupted client may spin forever once detached.
	defer func() {
		if h.s.Live() == 0 {
			h.s.Detach()
		}
	}()

	// swarm: knobs and enabled fault kinds vary per run
	quiet := t.Prob(1, 5, "quiet")
	cfg := Config{
		Endpoint:         "sim:1",
		NodeInfo:         NodeInfo{ImplName: "verif", ImplVersion: "0", GrayPaperVer: "0.7.2", JAMParameters: []byte{1, 2, 3}},
		BufferSize:       t.Range(1, 8, "bufsize"),
		ReconnectMin:     []time.Duration{time.Millisecond, 10 * time.Millisecond, 100 * time.Millisecond}[t.Choose(3, "rmin")],
		CloseTimeout:     []time.Duration{time.Millisecond, 50 * time.Millisecond, time.Second, 5 * time.Second}[t.Choose(4, "closeto")],
		TailDropInterval: []time.Duration{time.Millisecond, 10 * time.Millisecond, 100 * time.Millisecond, time.Second}[t.Choose(4, "taildrop")],
	}
	cfg.ReconnectMax = cfg.ReconnectMin * time.Duration([]int{1, 2, 8}[t.Choose(3, "rmax")])
	h.writeFaultW = []int{40, 0, 0, 0}
	h.dialFaultW = []int{12, 0, 0, 0}
	if !quiet {
		if t.Bool("en_short") {
			h.writeFaultW[1] = 3
		}
		if t.Bool("en_torn") {
			h.writeFaultW[2] = 2
		}
		if t.Bool("en_stall") {
			h.writeFaultW[3] = 3
		}
		if t.Bool("en_dialerr") {
			h.dialFaultW[1] = 4
		}
		if t.Bool("en_dialhang") {
			h.dialFaultW[2] = 1
		}
		if t.Bool("en_dialslow") {
			h.dialFaultW[3] = 2
		}
	}
	peerCloseW := 0
	if !quiet && t.Bool("en_peerclose") {
		peerCloseW = 1 + t.Choose(3, "peerclose_rate")
	}
	ni, err := cfg.NodeInfo.Encode()
	if err != nil {
		panic(err)
	}
	h.nodeInfo = ni
	c, err := newTCPClient(cfg)
	if err != nil {
		panic(err)
	}
	h.c = c
	c.dialer = h.dialer
	if t.Prob(1, 12, "epoch_near_wrap") {
		c.seq.currentEpoch = 0xFFFF - uint16(t.Choose(3, "epoch_off"))
		r.Count("probe:epoch_near_wrap", 1)
	}
	startEpoch := c.seq.currentEpoch

	h.bigPayloads = t.Prob(1, 30, "life_with_big_payloads")
	nEm := t.Range(1, 6, "emitters")
	totalOps := 0
	for i := 0; i < nEm; i++ {
		e := &emitter{idx: i, nOps: t.Range(1, 40, "nops")}
		totalOps += e.nOps
		h.emitters = append(h.emitters, e)
	}
	closeAt := -1 // scheduler step at which Close is called (−1: only at the end)
	if t.Prob(1, 2, "early_close") {
		closeAt = t.Choose(40*nEm+200, "close_at")
	}
	closeTwice := t.Bool("close_twice")
	policy := t.Choose(3, "policy") // 0 uniform, 1 sticky, 2 starve-one
	starve := t.Choose(nEm+2, "starve_who")
	r.Logf("cfg buf=%d rmin=%v rmax=%v closeTO=%v tail=%v emitters=%d ops=%d closeAt=%d quiet=%v policy=%d epoch0=%#x wf=%v df=%v peerclose=%d",
		cfg.BufferSize, cfg.ReconnectMin, cfg.ReconnectMax, cfg.CloseTimeout, cfg.TailDropInterval, nEm, totalOps, closeAt, quiet, policy, startEpoch, h.writeFaultW, h.dialFaultW, peerCloseW)

	t0 := time.Now()
	// the client's goroutines are started from a simulated goroutine so that they get logical ids
	starter := h.s.Spawn("starter", "starter", nil, func() { c.start() })
	_ = starter
	for _, e := range h.emitters {
		e := e
		e.g = h.s.Spawn("emitter", fmt.Sprintf("em%d", e.idx), e, func() { h.emitterBody(e) })
	}
	spawnCloser := func() {
		h.closeCalled = true
		h.s.Spawn("closer", "closer", nil, func() {
			simrt.Yield("closer")
			c.Close()
			if closeTwice {
				c.Close()
			}
			h.closeDone = true
		})
	}

	const maxSteps = 30000
	var last *simrt.G
	step := 0
	endPhase := false
	for ; step < maxSteps; step++ {
		h.s.Quiesce()
		h.s.DrainWake()
		if h.panicked != "" {
			break
		}
		h.checkEmittersNotBlocked(step)
		if r.Violated() {
			break
		}
		emittersDone := true
		for _, e := range h.emitters {
			if e.g.State != simrt.Exited {
				emittersDone = false
			}
		}
		if !h.closeCalled && (step == closeAt || emittersDone) {
			spawnCloser()
			continue
		}
		if emittersDone && h.closeDone {
			if !endPhase {
				endPhase = true
				// whatever the client left open is closed by the environment so that its goroutines can end
				for _, cn := range h.conns {
					if !cn.closed && !cn.peerGone {
						cn.peerGone = true
						close(cn.peerCh)
					}
				}
				continue
			}
			if h.s.Live() == 0 {
				break
			}
		}
		run := h.s.Runnable()
		// candidates for an environment action
		var liveConn *h1Conn
		for _, cn := range h.conns {
			if !cn.closed && !cn.peerGone {
				liveConn = cn
			}
		}
		action := 0 // 0 run a goroutine, 1 let time pass, 2 peer closes the connection
		if len(run) == 0 {
			action = 1
		} else {
			w := []int{60, 3, 0}
			if liveConn != nil && !endPhase {
				w[2] = peerCloseW
			}
			action = t.Pick(w, "action")
		}
		switch action {
		case 0:
			var g *simrt.G
			switch {
			case policy == 1 && last != nil && last.State == simrt.Parked && t.Prob(3, 4, "sticky"):
				g = last
			case policy == 2 && len(run) > 1:
				// starve one goroutine (by creation index) unless it is the only choice
				var cand []*simrt.G
				for _, x := range run {
					if x.Seq != starve {
						cand = append(cand, x)
					}
				}
				if len(cand) == 0 || t.Prob(1, 30, "unstarve") {
					cand = run
				}
				g = cand[t.Choose(len(cand), "who")]
			default:
				g = run[t.Choose(len(run), "who")]
			}
			if g.State == simrt.LockWait {
				r.Count("probe:lock_contended", 1)
			}
			last = g
			h.s.Release(g)
		case 1:
			d := []time.Duration{time.Microsecond, time.Millisecond, 30 * time.Millisecond, time.Second, 40 * time.Second}[t.Choose(5, "idle")]
			if len(run) == 0 {
				d = 3 * time.Minute // nothing runnable: jump to the next timer
			}
			h.s.Idle(d)
		case 2:
			liveConn.peerGone = true
			close(liveConn.peerCh)
			r.Count("fault:peer_close", 1)
			r.Logf("step %d: peer closes conn%d (rx=%d bytes)", step, liveConn.idx, len(liveConn.rx))
			if len(liveConn.rx) == 4+len(h.nodeInfo) {
				r.Count("probe:peer_close_right_after_nodeinfo", 1)
			}
		}
	}
	r.AddSimTime(time.Since(t0))
	r.Count("steps", int64(step))
	if step >= maxSteps {
		r.Count("probe:step_cap_reached", 1)
	}
	if h.panicked != "" {
		r.Violate(h1Prop, "panic", "emit-panicked", "%s", h.panicked)
	}
	if c.degradedFlag.Load() && c.seq.currentEpoch != 0xFFFF {
		r.Violate(h1Prop, "panic", "writer-panicked", "the writer goroutine panicked (client degraded) although the epoch counter is not exhausted")
	}
	if c.degradedFlag.Load() && c.seq.currentEpoch == 0xFFFF {
		r.Count("probe:epoch_exhausted_degrade", 1)
	}
	if !r.Violated() {
		h.oracle()
	}
	if h.s.Live() > 0 {
		r.Count("leak:goroutines_alive_at_end", int64(h.s.Live()))
		// unblock whatever is left so that the bubble can end
		for i := 0; i < 2000 && h.s.Live() > 0; i++ {
			h.s.Quiesce()
			run := h.s.Runnable()
			if len(run) == 0 {
				h.s.Idle(10 * time.Minute)
				continue
			}
			h.s.Release(run[0])
		}
	}
	nDel := 0
	for _, rec := range h.recs {
		nDel += rec.deliver
	}
	if len(h.conns) >= 1 && nDel > 0 && totalOps >= 4 {
		r.Nontrivial()
	}
	r.Shape(uint64(len(h.conns))<<32 ^ uint64(nDel)<<8 ^ uint64(step))
	r.Summary("emitters=%d ops=%d buf=%d conns=%d dials=%d delivered=%d steps=%d sim=%v", nEm, totalOps, cfg.BufferSize, len(h.conns), h.dials, nDel, step, time.Since(t0).Round(time.Millisecond))
}

// checkEmittersNotBlocked is the "emitters never block" invariant, evaluated at
// every quiescent point: an emitter inside an Emit* call must be runnable, or
// wait for a lock whose holder (transitively) is runnable. An emitter that is
// durably blocked (channel, timer, connection), or waits for a lock held by a
// goroutine that is durably blocked, is a violation.
func (h *h1) checkEmittersNotBlocked(step int) {
	for _, e := range h.emitters {
		if !e.inEmit {
			continue
		}
		g := e.g
		seen := 0
		for g != nil && seen < 10 {
			switch g.State {
			case simrt.Parked:
				g = nil
			case simrt.LockWait:
				o := h.s.LockOwner(g)
				if o == nil {
					g = nil // lock is free: runnable
				} else {
					g = o
				}
			case simrt.Running: // = durably blocked in a real operation at a quiescent point
				who := "itself"
				if g != e.g {
					who = "the lock holder " + g.ID + " (" + g.Name + ")"
				}
				h.r.Violate(h1Prop, "emitter-blocked", "emitter-blocked-in-emit", "step %d: emitter %d is inside an emit call (op %d) and cannot proceed: %s is durably blocked at %s", step, e.idx, e.opIdx, who, g.Site)
				return
			default:
				g = nil
			}
			seen++
		}
	}
}

// ---------------------------------------------------------------------------
// receiver model
// ---------------------------------------------------------------------------

type frameEv struct {
	id      uint64
	dropped bool
	count   uint64
	rec     *emitRec
}

func (h *h1) oracle() {
	r := h.r
	byTok := map[string]*emitRec{}
	for _, rec := range h.recs {
		byTok[string(token(rec.em, rec.k, rec.kind, 0))] = rec // keyed by the five identifying octets
	}
	returned := map[uint64]bool{}
	for _, rec := range h.recs {
		if rec.done && rec.ret != InvalidID {
			if returned[rec.ret] {
				r.Violate(h1Prop, "duplicate-id", "duplicate-id-returned", "event ID %#x was returned to two emit calls", rec.ret)
				return
			}
			returned[rec.ret] = true
		}
	}
	epochOfConn := map[int]uint16{}
	connOfEpoch := map[uint16]int{}
	for _, cn := range h.conns {
		rx := cn.rx
		var frames [][]byte
		off := 0
		for off+4 <= len(rx) {
			l := int(binary.LittleEndian.Uint32(rx[off:]))
			if off+4+l > len(rx) {
				break
			}
			frames = append(frames, rx[off+4:off+4+l])
			off += 4 + l
		}
		if off != len(rx) {
			r.Count("probe:trailing_partial_frame", 1)
			if !cn.writeErr {
				r.Violate(h1Prop, "malformed", "partial-frame-without-write-error", "conn%d: stream ends in a partial frame (%d stray bytes) although no write on it failed", cn.idx, len(rx)-off)
				return
			}
		}
		if len(frames) == 0 {
			continue
		}
		if !bytes.Equal(frames[0], h.nodeInfo) {
			r.Violate(h1Prop, "malformed", "first-frame-not-nodeinfo", "conn%d: first frame is not the node-information message (len %d)", cn.idx, len(frames[0]))
			return
		}
		counter := uint64(0)
		covered := map[uint64]bool{} // seqs accounted for by Dropped records
		delivered := map[uint64]*emitRec{}
		for fi, f := range frames[1:] {
			if len(f) < 9 {
				r.Violate(h1Prop, "malformed", "short-event-frame", "conn%d frame %d: %d bytes, shorter than the timestamp+discriminator header", cn.idx, fi+1, len(f))
				return
			}
			disc := f[8]
			body := f[9:]
			if disc == 0 {
				if len(body) != 16 {
					r.Violate(h1Prop, "malformed", "bad-dropped-record", "conn%d frame %d: Dropped record has %d payload bytes", cn.idx, fi+1, len(body))
					return
				}
				cnt := binary.LittleEndian.Uint64(body[8:])
				if cnt == 0 {
					r.Violate(h1Prop, "malformed", "dropped-count-zero", "conn%d frame %d: Dropped record with count 0", cn.idx, fi+1)
					return
				}
				for i := uint64(0); i < cnt && i < 1<<20; i++ {
					covered[counter+i] = true
				}
				counter += cnt
				r.Count("probe:dropped_record_on_wire", 1)
				if cnt > 1 {
					r.Count("probe:dropped_range_coalesced", 1)
				}
				continue
			}
			id := counter
			counter++
			tok := body
			var parentSeq uint64
			if disc == 2 {
				if len(body) < 8 {
					r.Violate(h1Prop, "malformed", "short-followup", "conn%d frame %d: follow-up without parent prefix", cn.idx, fi+1)
					return
				}
				parentSeq = binary.LittleEndian.Uint64(body)
				tok = body[8:]
			}
			var rec *emitRec
			if len(tok) >= 5 {
				rec = byTok[string(tok[:5])]
			}
			if rec != nil && !bytes.Equal(tok, token(rec.em, rec.k, rec.kind, rec.pad)) {
				r.Violate(h1Prop, "malformed", "event-payload-altered", "conn%d frame %d (receiver id %d): the payload of emit em%d/op%d arrived with %d octets, %d were emitted (or its content changed)", cn.idx, fi+1, id, rec.em, rec.k, len(tok), len(token(rec.em, rec.k, rec.kind, rec.pad)))
				return
			}
			if rec == nil {
				r.Violate(h1Prop, "phantom", "unknown-event-on-wire", "conn%d frame %d (receiver id %d): payload %x matches no emit call", cn.idx, fi+1, id, tok)
				return
			}
			rec.deliver++
			if rec.deliver > 1 {
				r.Violate(h1Prop, "duplicate", "event-delivered-twice", "emit em%d/op%d was delivered twice", rec.em, rec.k)
				return
			}
			if !rec.done || rec.ret == InvalidID {
				r.Violate(h1Prop, "phantom", "invalidid-event-delivered", "conn%d receiver id %d: event of em%d/op%d is on the wire although its emit call returned InvalidID", cn.idx, id, rec.em, rec.k)
				return
			}
			if eventIDSeq(rec.ret) != id {
				r.Violate(h1Prop, "misaligned", "receiver-id-differs-from-returned-id", "conn%d: receiver numbers the event of em%d/op%d as %d but the emitter was given seq %d (id %#x)", cn.idx, rec.em, rec.k, id, eventIDSeq(rec.ret), rec.ret)
				return
			}
			ep := eventIDEpoch(rec.ret)
			if e0, ok := epochOfConn[cn.idx]; ok && e0 != ep {
				r.Violate(h1Prop, "misaligned", "two-epochs-on-one-connection", "conn%d carries events of epochs %d and %d", cn.idx, e0, ep)
				return
			}
			epochOfConn[cn.idx] = ep
			if c0, ok := connOfEpoch[ep]; ok && c0 != cn.idx {
				r.Violate(h1Prop, "misaligned", "one-epoch-on-two-connections", "epoch %d delivered events on conn%d and conn%d", ep, c0, cn.idx)
				return
			}
			connOfEpoch[ep] = cn.idx
			if disc == 2 {
				if rec.kind < 2 {
					r.Violate(h1Prop, "malformed", "disc-mismatch", "plain event delivered with follow-up discriminator")
					return
				}
				if rec.parent == InvalidID || eventIDEpoch(rec.parent) != ep || !returned[rec.parent] {
					r.Violate(h1Prop, "followup", "followup-parent-from-other-connection", "conn%d: follow-up em%d/op%d (id %#x) was emitted with parent %#x which is not an ID of this connection", cn.idx, rec.em, rec.k, rec.ret, rec.parent)
					return
				}
				if parentSeq != eventIDSeq(rec.parent) {
					r.Violate(h1Prop, "followup", "followup-parent-prefix-wrong", "conn%d: follow-up em%d/op%d carries parent seq %d, emitter passed %d", cn.idx, rec.em, rec.k, parentSeq, eventIDSeq(rec.parent))
					return
				}
				r.Count("probe:followup_delivered", 1)
			}
			delivered[id] = rec
		}
		// every ID the receiver has counted past is either a delivered event or inside a Dropped record;
		// an emitter whose ID lies below the final counter must be one of the two
		if ep, ok := epochOfConn[cn.idx]; ok {
			for _, rec := range h.recs {
				if !rec.done || rec.ret == InvalidID || eventIDEpoch(rec.ret) != ep {
					continue
				}
				s := eventIDSeq(rec.ret)
				if s < counter && delivered[s] != rec && !covered[s] {
					r.Violate(h1Prop, "misaligned", "id-neither-delivered-nor-dropped", "conn%d: receiver counter reached %d but id seq %d (em%d/op%d) is neither delivered nor inside a Dropped record", cn.idx, counter, s, rec.em, rec.k)
					return
				}
				if covered[s] && delivered[s] == rec {
					r.Violate(h1Prop, "misaligned", "id-both-delivered-and-dropped", "conn%d: id seq %d is both delivered and covered by a Dropped record", cn.idx, s)
					return
				}
			}
		}
	}
	// follow-ups with a parent that is not valid for the connection must have been refused
	for _, rec := range h.recs {
		if rec.kind >= 2 && rec.done && rec.ret != InvalidID {
			if rec.parent == InvalidID || rec.parent == 0 || eventIDEpoch(rec.parent) != eventIDEpoch(rec.ret) {
				h.r.Violate(h1Prop, "followup", "followup-accepted-with-foreign-parent", "follow-up em%d/op%d got id %#x (epoch %d) for parent %#x (epoch %d)", rec.em, rec.k, rec.ret, eventIDEpoch(rec.ret), rec.parent, eventIDEpoch(rec.parent))
				return
			}
		}
	}
	if len(epochOfConn) > 1 {
		h.r.Count("probe:events_on_two_or_more_connections", 1)
	}
	eps := make([]int, 0, len(connOfEpoch))
	for e := range connOfEpoch {
		eps = append(eps, int(e))
	}
	sort.Ints(eps)
	_ = eps
}

func TestVerifH1(t *testing.T) {
	log.SetOutput(io.Discard)
	ok, msg := sim.WorkerMain(func(r *sim.Run) { h1Run(t, r) })
	if !ok {
		t.Fatal(msg)
	}
	if msg != "" {
		t.Log(msg)
	}
}
