//go:build verif

// H5-C27: sequential operation histories against the three real database
// providers and a sorted-map model. The simulator owns the history and what
// survives between calls: after every call the buffers the caller passed in are
// scribbled over ("caller reuses its buffer" is the injected fault), batches are
// committed, discarded or abandoned at tape-chosen points.
package h5db_test

import (
	"bytes"
	"fmt"
	"os"
	"sort"
	"strings"
	"testing"

	"github.com/New-JAMneration/JAM-Protocol/internal/database"
	"github.com/New-JAMneration/JAM-Protocol/internal/database/provider/memory"
	pebbledb "github.com/New-JAMneration/JAM-Protocol/internal/database/provider/pebble"
	redisdb "github.com/New-JAMneration/JAM-Protocol/internal/database/provider/redis"
	"github.com/New-JAMneration/JAM-Protocol/internal/zzverif/sim"
	"github.com/alicebob/miniredis/v2"
)

const prop = "C27"

// miniredis (the Redis stand-in) translates SCAN patterns to Go regexps inside
// its own server goroutine and *panics* (killing the process) on patterns it
// cannot translate: bytes that are not valid UTF-8, and a backslash inside an
// unterminated '[' class. Histories that include the Redis provider therefore
// draw keys from an alphabet that can never crash the stand-in whatever the
// provider sends (glob metacharacters '*', '?', '[', ']' are kept); a separate
// swarm arm without Redis uses the full binary alphabet incl. '\\', 0x80, 0xff.
var alphabetASCII = []byte{0x00, 'a', 'b', '*', '?', '[', ']', 0x7f}
var alphabetBinary = []byte{0x00, 'a', 'b', '*', '?', '[', ']', '\\', 0x80, 0xff}

var (
	mr    *miniredis.Miniredis
	mrErr error
)

type provider struct {
	name string
	db   database.Database
}

type openBatch struct {
	ops  []bop // model of buffered ops
	real []database.Batch
}
type bop struct {
	del bool
	k   string
	v   []byte
}

type heldResult struct {
	prov string
	desc string
	got  []byte // slice returned by the provider (not touched by the harness)
	want []byte // private copy taken at return time
}

func genKey(t *sim.Tape, alphabet []byte) []byte {
	n := t.Pick([]int{1, 4, 6, 4, 2}, "keylen")
	k := make([]byte, n)
	for i := range k {
		k[i] = alphabet[t.Choose(len(alphabet), "keybyte")]
	}
	return k
}

func hasMeta(b []byte) bool { return bytes.ContainsAny(b, "*?[]\\") }

func scribble(b []byte) {
	for i := range b {
		b[i] = 0xEE
	}
}

func q(b []byte) string { return fmt.Sprintf("%q", b) }

type abortRun struct{}

func runOne(r *sim.Run) {
	t := r.T
	defer func() {
		if v := recover(); v != nil {
			if _, ok := v.(abortRun); !ok {
				panic(v)
			}
		}
	}()
	// a fresh Redis stand-in per run: a command of an earlier run that the client gave up on (host stall) may still be
	// executed by the old server after a flush; with a server of its own no run can see another run's writes
	if mr != nil {
		mr.Close()
	}
	mr, mrErr = miniredis.Run()
	if mrErr != nil {
		panic("miniredis: " + mrErr.Error())
	}
	// one run in five keeps the Pebble store in a real directory, so that the store can be RESTARTED (closed and opened
	// again on what it left behind) in the middle of a history: the write-ahead log is replayed, memtables are flushed,
	// and everything committed before must read back as before (a restart is the one point where a sequential
	// history meets the store's durable representation)
	onDisk := t.Prob(1, 5, "pebble_on_disk")
	var pdb database.Database
	var err error
	pebbleDir := ""
	if onDisk {
		pebbleDir, err = os.MkdirTemp("", "verif-h5db-pebble-")
		if err != nil {
			panic("pebble temp dir: " + err.Error())
		}
		defer os.RemoveAll(pebbleDir)
		pdb, err = pebbledb.NewDatabase(pebbleDir, false)
		r.Count("arm:pebble_on_disk_with_restarts", 1)
	} else {
		pdb, err = pebbledb.NewTestDatabase()
	}
	if err != nil {
		panic("pebble: " + err.Error())
	}
	provs := []provider{
		{"memory", memory.NewDatabase()},
		{"pebble", pdb},
	}
	alphabet := alphabetBinary
	if t.Prob(3, 4, "with_redis") {
		provs = append(provs, provider{"redis", redisdb.NewDatabase(mr.Addr(), "", 0)})
		alphabet = alphabetASCII
		r.Count("arm:three_providers", 1)
	} else {
		r.Count("arm:binary_keys_memory_pebble", 1)
	}
	defer func() {
		for _, p := range provs {
			p.db.Close()
		}
	}()

	model := map[string][]byte{}
	var batches []*openBatch
	var held []heldResult
	valCounter := 0
	nOps := t.Range(1, 40, "nops")
	var sawIter, sawCommit bool
	var hist []string

	fail := func(p provider, opkind, kind, format string, a ...any) {
		if msg := fmt.Sprintf(format, a...); p.name == "redis" && (strings.Contains(msg, "i/o timeout") || strings.Contains(msg, "dial tcp")) {
			// The Redis stand-in is reached over a real loopback socket with go-redis' real 3 s deadline: the one
			// seam of this harness the tape does not own. A stall of the host (not of the code under test) is
			// not a property matter: the run is discarded and counted; it is never reported.
			r.Discard("redis_loopback_socket_timeout_(host_stall,_not_decided)")
			panic(abortRun{})
		}
		r.Violate(prop, opkind, p.name+":"+opkind+":"+kind, "%s after history [%s]: %s", p.name, strings.Join(hist, "; "), fmt.Sprintf(format, a...))
	}
	newVal := func() []byte {
		valCounter++
		switch t.Pick([]int{1, 6, 1}, "vallen") {
		case 0:
			r.Count("probe:empty_value", 1)
			return []byte{}
		case 1:
			return []byte(fmt.Sprintf("v%d", valCounter))
		default:
			return append([]byte(fmt.Sprintf("v%d-", valCounter)), bytes.Repeat([]byte{0xEE}, t.Range(1, 40, "pad"))...)
		}
	}
	// a key that is likely to exist (or a fresh one)
	pickKey := func() []byte {
		if len(model) > 0 && t.Prob(2, 3, "existing") {
			ks := sortedKeys(model)
			return []byte(ks[t.Choose(len(ks), "whichkey")])
		}
		return genKey(t, alphabet)
	}
	noteKey := func(k []byte) {
		if len(k) == 0 {
			r.Count("probe:empty_key", 1)
		}
		if hasMeta(k) {
			r.Count("probe:glob_meta_key", 1)
		}
	}

	// a POPULATED store: hundreds to thousands of entries (written one by one or in one large batch), a few values of
	// 64 KiB .. 1 MiB and a long key, before the ordinary operations start: iterations then walk many entries (cursor
	// pages, buffers that grow), batches are large, and whatever a provider keeps per entry meets counts beyond 8 bits
	if t.Prob(1, 12, "populated_store") {
		n := []int{100, 255, 256, 257, 1000, 1025, 3000}[t.Choose(7, "populated_n")]
		viaBatch := t.Bool("populated_via_batch")
		pre := []byte{alphabet[t.Choose(len(alphabet), "populated_prefix")]}
		if hasMeta(pre) || pre[0] == 0 {
			pre = []byte("p")
		}
		var bs []database.Batch
		if viaBatch {
			for _, p := range provs {
				bs = append(bs, p.db.NewBatch())
			}
		}
		bigAt := t.Choose(n, "populated_big_at")
		for i := 0; i < n && !r.Violated(); i++ {
			k := append(append([]byte(nil), pre...), []byte(fmt.Sprintf("%05d", i*7919%100000))...)
			v := []byte(fmt.Sprintf("bulk-%d", i))
			if i == bigAt {
				v = append(v, bytes.Repeat([]byte{byte(i), 0x5A}, []int{32768, 40000, 524288 + 7}[t.Choose(3, "populated_big_len")])...)
			}
			if i == (bigAt+1)%n {
				k = append(k, bytes.Repeat([]byte("k"), 300+t.Choose(900, "populated_long_key"))...)
			}
			for j, p := range provs {
				kb, vb := append([]byte(nil), k...), append([]byte(nil), v...)
				var err error
				if viaBatch {
					err = bs[j].Put(kb, vb)
				} else {
					err = p.db.Put(kb, vb)
				}
				if err != nil {
					fail(p, "put", "error", "populating: Put(%s) returned %v", q(k), err)
				}
				scribble(kb)
				scribble(vb)
			}
			model[string(k)] = v
		}
		keepOpen := viaBatch && t.Prob(1, 2, "populated_batch_left_open")
		if keepOpen {
			// the large batch stays open: until it is committed nothing of it may be visible, and if it is discarded
			// nothing of it may remain (the ordinary operations that follow read, iterate, commit or discard it)
			ob := &openBatch{real: bs}
			ks := sortedKeys(model)
			for _, k := range ks {
				ob.ops = append(ob.ops, bop{false, k, model[k]})
			}
			model = map[string][]byte{}
			batches = append(batches, ob)
			r.Count("probe:large_batch_left_open", 1)
		} else if viaBatch {
			for j, p := range provs {
				if err := bs[j].Commit(); err != nil {
					fail(p, "batch-commit", "error", "populating: Commit of %d entries returned %v", n, err)
				}
				if err := bs[j].Close(); err != nil {
					fail(p, "batch-close", "error", "populating: Close returned %v", err)
				}
			}
		}
		hist = append(hist, fmt.Sprintf("populate(%d entries under %s, batch=%v)", n, q(pre), viaBatch))
		r.Count("probe:populated_store_hundreds_of_entries", 1)
	}
	restart := func(why string) {
		// open batches die with the handle they were made on: they are abandoned first (and must have had no effect)
		for _, b := range batches {
			for i := range provs {
				b.real[i].Close()
			}
		}
		batches = nil
		for i := range provs {
			switch provs[i].name {
			case "pebble":
				if err := provs[i].db.Close(); err != nil {
					fail(provs[i], "restart", "error", "Close before restart returned %v", err)
				}
				ndb, err := pebbledb.NewDatabase(pebbleDir, false)
				if err != nil {
					fail(provs[i], "restart", "error", "reopening the store returned %v", err)
					panic(abortRun{})
				}
				provs[i].db = ndb
			case "redis":
				provs[i].db.Close()
				provs[i].db = redisdb.NewDatabase(mr.Addr(), "", 0) // a new client on the same server
			}
		}
		hist = append(hist, why)
		r.Count("fault:store_restarted", 1)
	}
	for step := 0; step < nOps && !r.Violated(); step++ {
		w := []int{6, 3, 5, 2, 3, 5, 3, 3, 1, 6, 0}
		if onDisk {
			w[10] = 3
		}
		op := t.Pick(w, "op")
		switch op {
		case 10:
			restart("restart")
		case 0: // Put
			k, v := pickKey(), newVal()
			noteKey(k)
			hist = append(hist, fmt.Sprintf("Put(%s,%s)", q(k), q(v)))
			for _, p := range provs {
				kb, vb := append([]byte(nil), k...), append([]byte(nil), v...)
				if err := p.db.Put(kb, vb); err != nil {
					fail(p, "put", "error", "Put(%s) returned %v", q(k), err)
				}
				scribble(kb)
				scribble(vb)
				r.Count("fault:scribble_args", 1)
			}
			model[string(k)] = append([]byte(nil), v...)
		case 1: // Delete
			k := pickKey()
			hist = append(hist, fmt.Sprintf("Delete(%s)", q(k)))
			for _, p := range provs {
				kb := append([]byte(nil), k...)
				if err := p.db.Delete(kb); err != nil {
					fail(p, "delete", "error", "Delete(%s) returned %v", q(k), err)
				}
				scribble(kb)
			}
			delete(model, string(k))
		case 2, 3: // Get / Has
			k := pickKey()
			want, wok := model[string(k)]
			if op == 2 {
				hist = append(hist, fmt.Sprintf("Get(%s)", q(k)))
			} else {
				hist = append(hist, fmt.Sprintf("Has(%s)", q(k)))
			}
			hold := t.Bool("hold")
			for _, p := range provs {
				kb := append([]byte(nil), k...)
				if op == 3 {
					ok, err := p.db.Has(kb)
					scribble(kb)
					if err != nil {
						fail(p, "has", "error", "Has(%s) returned %v", q(k), err)
					} else if ok != wok {
						fail(p, "has", "wrong", "Has(%s)=%v, model says %v", q(k), ok, wok)
					}
					continue
				}
				got, ok, err := p.db.Get(kb)
				scribble(kb)
				if err != nil {
					fail(p, "get", "error", "Get(%s) returned %v", q(k), err)
					continue
				}
				if ok != wok || (ok && !bytes.Equal(got, want)) {
					fail(p, "get", "wrong", "Get(%s)=(%s,%v), model says (%s,%v)", q(k), q(got), ok, q(want), wok)
					continue
				}
				if ok && len(got) > 0 {
					if hold {
						// keep the returned slice untouched; it must still read the same at the end
						held = append(held, heldResult{p.name, fmt.Sprintf("Get(%s) at step %d", q(k), step), got, append([]byte(nil), got...)})
					} else {
						// caller scribbles over what it was given; the store must not change
						scribble(got)
						r.Count("fault:scribble_result", 1)
					}
				}
			}
		case 4: // NewBatch
			if len(batches) >= 2 {
				continue
			}
			hist = append(hist, "NewBatch")
			b := &openBatch{}
			for _, p := range provs {
				b.real = append(b.real, p.db.NewBatch())
			}
			batches = append(batches, b)
		case 5, 6: // batch Put / Delete
			if len(batches) == 0 {
				continue
			}
			bi := t.Choose(len(batches), "whichbatch")
			b := batches[bi]
			k := pickKey()
			noteKey(k)
			if op == 5 {
				v := newVal()
				hist = append(hist, fmt.Sprintf("b%d.Put(%s,%s)", bi, q(k), q(v)))
				for i, p := range provs {
					kb, vb := append([]byte(nil), k...), append([]byte(nil), v...)
					if err := b.real[i].Put(kb, vb); err != nil {
						fail(p, "batch-put", "error", "batch Put(%s) returned %v", q(k), err)
					}
					scribble(kb)
					scribble(vb)
					r.Count("fault:scribble_args", 1)
				}
				b.ops = append(b.ops, bop{false, string(k), append([]byte(nil), v...)})
			} else {
				hist = append(hist, fmt.Sprintf("b%d.Delete(%s)", bi, q(k)))
				for i, p := range provs {
					kb := append([]byte(nil), k...)
					if err := b.real[i].Delete(kb); err != nil {
						fail(p, "batch-delete", "error", "batch Delete(%s) returned %v", q(k), err)
					}
					scribble(kb)
					r.Count("fault:scribble_args", 1)
				}
				b.ops = append(b.ops, bop{true, string(k), nil})
			}
		case 7: // Commit (+Close)
			if len(batches) == 0 {
				continue
			}
			bi := t.Choose(len(batches), "whichbatch")
			b := batches[bi]
			hist = append(hist, fmt.Sprintf("b%d.Commit", bi))
			for i, p := range provs {
				if err := b.real[i].Commit(); err != nil {
					fail(p, "batch-commit", "error", "Commit returned %v", err)
				}
				if err := b.real[i].Close(); err != nil {
					fail(p, "batch-close", "error", "Close after Commit returned %v", err)
				}
			}
			for _, o := range b.ops {
				if o.del {
					delete(model, o.k)
				} else {
					model[o.k] = o.v
				}
			}
			if len(b.ops) > 0 {
				sawCommit = true
				r.Count("probe:batch_commit", 1)
			}
			batches = append(batches[:bi], batches[bi+1:]...)
		case 8: // Close without commit
			if len(batches) == 0 {
				continue
			}
			bi := t.Choose(len(batches), "whichbatch")
			b := batches[bi]
			hist = append(hist, fmt.Sprintf("b%d.Close(discard)", bi))
			for i, p := range provs {
				if err := b.real[i].Close(); err != nil {
					fail(p, "batch-close", "error", "Close returned %v", err)
				}
			}
			if len(b.ops) > 0 {
				r.Count("probe:batch_discard", 1)
			}
			batches = append(batches[:bi], batches[bi+1:]...)
		case 9: // iterate
			var prefix, start []byte
			switch t.Pick([]int{2, 3, 3}, "prefixkind") {
			case 0:
			case 1:
				prefix = genKey(t, alphabet)
				if len(prefix) > 2 {
					prefix = prefix[:2]
				}
			default: // prefix of an existing key
				if len(model) > 0 {
					ks := sortedKeys(model)
					k := ks[t.Choose(len(ks), "pk")]
					prefix = []byte(k[:t.Choose(len(k)+1, "plen")])
				}
			}
			switch t.Pick([]int{2, 3, 3}, "startkind") {
			case 0:
			case 1:
				start = genKey(t, alphabet)
				if len(start) > 2 {
					start = start[:2]
				}
			default: // remainder (or part of it) of an existing key under the prefix
				var cands []string
				for _, k := range sortedKeys(model) {
					if strings.HasPrefix(k, string(prefix)) && len(k) > len(prefix) {
						cands = append(cands, k[len(prefix):])
					}
				}
				if len(cands) > 0 {
					c := cands[t.Choose(len(cands), "sk")]
					start = []byte(c[:1+t.Choose(len(c), "slen")])
				}
			}
			lower := string(prefix) + string(start)
			var want []string
			nonPrefixed := 0
			for _, k := range sortedKeys(model) {
				if strings.HasPrefix(k, string(prefix)) && k >= lower {
					want = append(want, k)
					if !strings.HasPrefix(k, lower) {
						nonPrefixed++
					}
				}
			}
			if nonPrefixed > 0 {
				r.Count("probe:iter_start_not_prefix", 1)
			}
			if hasMeta([]byte(lower)) {
				r.Count("probe:iter_glob_meta_bound", 1)
			}
			if len(want) > 0 {
				sawIter = true
			}
			hist = append(hist, fmt.Sprintf("Iter(%s,%s)", q(prefix), q(start)))
			for _, p := range provs {
				pb, sb := append([]byte(nil), prefix...), append([]byte(nil), start...)
				it, err := p.db.NewIterator(pb, sb)
				scribble(pb)
				scribble(sb)
				if err != nil {
					fail(p, "iter", "error", "NewIterator(%s,%s) returned %v", q(prefix), q(start), err)
					continue
				}
				var gotK []string
				var gotV [][]byte
				for n := 0; it.Next(); n++ {
					gotK = append(gotK, string(it.Key()))
					gotV = append(gotV, append([]byte(nil), it.Value()...))
					if n > len(model)+5 {
						break
					}
				}
				if err := it.Error(); err != nil {
					fail(p, "iter", "error", "iterator Error()=%v", err)
				}
				if err := it.Close(); err != nil {
					fail(p, "iter", "error", "iterator Close()=%v", err)
				}
				kind := ""
				switch {
				case !sort.StringsAreSorted(gotK):
					kind = "unsorted"
				case len(missing(want, gotK)) > 0:
					kind = "missing-keys"
					allNP := true
					for _, k := range missing(want, gotK) {
						if strings.HasPrefix(k, lower) {
							allNP = false
						}
					}
					if allNP && len(start) > 0 {
						kind = "missing-keys-not-prefixed-by-start"
					} else if hasMeta([]byte(lower)) {
						kind = "missing-keys-glob-metachar-in-bound"
					}
				case len(missing(gotK, want)) > 0:
					kind = "extra-keys"
				case len(gotK) != len(want):
					kind = "duplicate-keys"
				}
				if kind != "" {
					fail(p, "iter", kind, "NewIterator(%s,%s) yielded %q, model says %q", q(prefix), q(start), gotK, want)
					continue
				}
				for i, k := range gotK {
					if !bytes.Equal(gotV[i], model[k]) {
						fail(p, "iter", "wrong-value", "NewIterator(%s,%s): value of %q is %s, model says %s", q(prefix), q(start), k, q(gotV[i]), q(model[k]))
						break
					}
				}
			}
		}
	}
	// abandon batches still open: they must have had no effect
	for _, b := range batches {
		for i := range provs {
			b.real[i].Close()
		}
	}
	batches = nil
	if r.Violated() {
		return
	}
	if onDisk && t.Bool("restart_before_final_sweep") {
		restart("restart before the final sweep")
	}
	// final sweep: every provider holds exactly the model
	for _, p := range provs {
		it, err := p.db.NewIterator(nil, nil)
		if err != nil {
			fail(p, "final", "error", "final NewIterator returned %v", err)
			continue
		}
		got := map[string][]byte{}
		for it.Next() {
			got[string(it.Key())] = append([]byte(nil), it.Value()...)
		}
		it.Close()
		gk, wk := sortedKeys(got), sortedKeys(model)
		if strings.Join(gk, "\x01") != strings.Join(wk, "\x01") {
			fail(p, "final", "keyset", "final contents have keys %q, model says %q", gk, wk)
			continue
		}
		for _, k := range wk {
			if !bytes.Equal(got[k], model[k]) {
				fail(p, "final", "value", "final value of %q is %s, model says %s", k, q(got[k]), q(model[k]))
				break
			}
			// point reads agree with iteration
			v, ok, err := p.db.Get([]byte(k))
			if err != nil || !ok || !bytes.Equal(v, model[k]) {
				fail(p, "final", "get", "final Get(%q)=(%s,%v,%v), model says %s", k, q(v), ok, err, q(model[k]))
				break
			}
		}
	}
	for _, h := range held {
		if !bytes.Equal(h.got, h.want) {
			r.Violate(prop, "held-result", h.prov+":get:returned-slice-changed", "%s: slice returned by %s later changed from %s to %s; history [%s]", h.prov, h.desc, q(h.want), q(h.got), strings.Join(hist, "; "))
		}
	}
	if nOps >= 8 && sawIter && sawCommit {
		r.Nontrivial()
	}
	r.ShapeStr(strings.Join(hist, ";"))
	r.Summary("%d ops: %s", len(hist), strings.Join(hist, "; "))
}

func missing(want, got []string) []string {
	set := map[string]bool{}
	for _, g := range got {
		set[g] = true
	}
	var m []string
	for _, w := range want {
		if !set[w] {
			m = append(m, w)
		}
	}
	return m
}

func sortedKeys(m map[string][]byte) []string {
	ks := make([]string, 0, len(m))
	for k := range m {
		ks = append(ks, k)
	}
	sort.Strings(ks)
	return ks
}

func TestVerifH5DB(t *testing.T) {
	ok, msg := sim.WorkerMain(runOne)
	if mr != nil {
		mr.Close()
	}
	if !ok {
		t.Fatal(msg)
	}
	if msg != "" {
		t.Log(msg)
	}
}
