//go:build verif

// H6 codec-sim (C11, the clause a simulator can own): "Encoding is deterministic: it does
// not depend on map iteration order or on reuse of pooled encoders", quantified over
// "maps built in random insertion orders and encoders drawn from the shared pool
// concurrently".
//
// Several tasks (real goroutines, one runnable at a time, chosen from the tape) encode and
// decode generated protocol values through the repository's shared encoder pool. The
// simulator owns (a) which pooled encoder a Get hands out and whether a Put is lost (pool
// seam in internal/types/encoder.go), (b) the interleaving of the tasks, with yields inside
// every loop of internal/types/encode.go so that a task can be pre-empted in the middle of
// an encoding, (c) the iteration order of every `range` over a map in the codec files.
// Oracles, per value: the bytes produced inside the simulation equal the bytes produced
// by a fresh private encoder before the simulation; results kept by a task stay unchanged
// while other tasks reuse the pooled encoders; decoding consumes exactly the encoding and
// yields a value equal to the original (nil and empty containers identified) that encodes
// to the same bytes; an encoding that must fail (import specs without a segment-root
// dictionary) fails whatever encoder the pool hands out; fuzz-protocol messages survive
// MarshalBinary / ReadFrom.
package h6codec_test

import (
	"bytes"
	"fmt"
	"os"
	"reflect"
	"sort"
	"strings"
	"testing"
	"testing/synctest"
	"time"

	"github.com/New-JAMneration/JAM-Protocol/internal/fuzz"
	"github.com/New-JAMneration/JAM-Protocol/internal/types"
	"github.com/New-JAMneration/JAM-Protocol/internal/utilities/hash"
	"github.com/New-JAMneration/JAM-Protocol/internal/utilities/merklization"
	"github.com/New-JAMneration/JAM-Protocol/internal/zzverif/sim"
	"github.com/New-JAMneration/JAM-Protocol/internal/zzverif/simrt"
	"golang.org/x/crypto/blake2b"
)

const prop = "C11"

type decodable interface {
	Decode(d *types.Decoder) error
}

// ---------------------------------------------------------------------------
// prototypes: every serialisable protocol type the harness generates
// ---------------------------------------------------------------------------

type proto struct {
	name   string
	mk     func() any
	hsm    bool // needs the segment-root dictionary on encoder and decoder
	weight int
}

func p[T any](weight int) proto {
	var z T
	return proto{name: reflect.TypeOf(z).Name(), mk: func() any { return new(T) }, weight: weight}
}

func ph[T any](weight int) proto { x := p[T](weight); x.hsm = true; return x }

var protos = []proto{
	p[types.Block](8), p[types.Header](4), p[types.Extrinsic](3), p[types.EpochMark](1), p[types.TicketsMark](1), p[types.OffendersMark](1),
	p[types.TicketsExtrinsic](1), p[types.PreimagesExtrinsic](1), p[types.GuaranteesExtrinsic](3), p[types.AssurancesExtrinsic](1), p[types.DisputesExtrinsic](2),
	p[types.WorkReport](4), p[types.WorkResult](1), p[types.WorkExecResult](1), p[types.RefineContext](1), p[types.WorkPackageSpec](1), p[types.SegmentRootLookup](1),
	p[types.ReportGuarantee](1), p[types.AvailAssurance](1), p[types.Verdict](1), p[types.Culprit](1), p[types.Fault](1), p[types.Preimage](1), p[types.TicketEnvelope](1),
	ph[types.WorkPackage](4), ph[types.WorkItem](2), ph[types.ImportSpec](1), p[types.Authorizer](1), ph[types.WorkPackageBundle](2),
	p[types.ExtrinsicDataList](1), p[types.OpaqueHashMatrix](1),
	p[types.State](6), p[types.Statistics](2), p[types.ValidatorsStatistics](1), p[types.CoresStatistics](1), p[types.ServicesStatistics](2),
	p[types.SafroleState](2), p[types.TicketsOrKeys](1), p[types.TicketsAccumulator](1), p[types.ValidatorsData](1), p[types.EntropyBuffer](1),
	p[types.AvailabilityAssignments](2), p[types.RecentBlocks](2), p[types.BlocksHistory](1), p[types.Mmr](1), p[types.BlockInfo](1),
	p[types.AuthPools](1), p[types.AuthQueues](1), p[types.DisputesRecords](1), p[types.Privileges](2), p[types.AlwaysAccumulateMap](1),
	p[types.ReadyQueue](2), p[types.ReadyRecord](1), p[types.AccumulatedQueue](1), p[types.LastAccOut](1), p[types.AccumulatedServiceOutput](1),
	p[types.ServiceAccountState](3), p[types.ServiceAccount](2), p[types.ServiceInfo](1), p[types.Storage](1), p[types.PreimagesMapEntry](1), p[types.LookupMetaMapEntry](1),
	p[types.MetaCode](1), p[types.StateKeyVals](2), p[types.StateKeyVal](1), p[types.Ancestry](1), p[types.BoundaryNode](1), p[types.TimeSlotSet](1),
	p[types.ServiceIDList](1), p[types.ByteSequence](1), p[types.U64](1), p[types.U32](1), p[types.U16](1), p[types.U8](1), p[types.TimeSlot](1), p[types.Gas](1),
	// encode-only types (determinism only)
	p[types.DeferredTransfer](1), p[types.Operand](1), p[types.OperandOrDeferredTransfer](1), p[types.SliceHash](1),
}

// ---------------------------------------------------------------------------
// reflection-driven generator respecting the fixed-length invariants of the codec
// ---------------------------------------------------------------------------

type gen struct {
	t     *sim.Tape
	hsm   types.HashSegmentMap
	roots []types.OpaqueHash // keys of hsm in creation order
	depth int
	// big: how many octet strings of the value under construction may still be made large (tens of KiB and more:
	// code blobs, preimages, storage values, bundles; buffers that grow, are recycled or handed out by reference behave
	// differently beyond the sizes the small values reach)
	big int
}

var boundaries = []uint64{0, 1, 2, 127, 128, 255, 256, 1<<14 - 1, 1 << 14, 1<<21 - 1, 1 << 21, 1<<28 - 1, 1 << 28, 1<<32 - 1, 1 << 32, 1<<35 - 1, 1 << 35, 1<<42 - 1, 1 << 42, 1<<49 - 1, 1 << 49, 1<<56 - 1, 1 << 56, 1<<63 - 1, 1 << 63, 1<<64 - 1}

func (g *gen) u64(bits int) uint64 {
	var v uint64
	if g.t.Prob(1, 2, "int_boundary") {
		v = boundaries[g.t.Choose(len(boundaries), "int_boundary_which")]
	} else {
		v = g.t.U64("int")
		v >>= uint(g.t.Choose(64, "int_shift"))
	}
	if bits < 64 {
		v &= 1<<uint(bits) - 1
	}
	return v
}

func (g *gen) fillBytes(b []byte) {
	if len(b) == 0 {
		return
	}
	seed := byte(g.t.Choose(256, "bytes_seed"))
	mode := g.t.Choose(4, "bytes_mode")
	for i := range b {
		switch mode {
		case 0:
			b[i] = seed
		case 1:
			b[i] = seed + byte(i)*7
		case 2:
			b[i] = 0
		default:
			b[i] = byte((int(seed)+1)*(i+3)) ^ byte(i>>3)
		}
	}
	if mode == 2 {
		b[len(b)-1] = seed // all zero but the last octet
	}
}

func (g *gen) smallLen(max int) int {
	n := g.t.Pick([]int{5, 5, 4, 3, 1, 1}, "len")
	if n > max {
		n = max
	}
	return n
}

var (
	tValidatorsData   = reflect.TypeOf(types.ValidatorsData{})
	tValidatorsStats  = reflect.TypeOf(types.ValidatorsStatistics{})
	tCoresStats       = reflect.TypeOf(types.CoresStatistics{})
	tAvailAssignments = reflect.TypeOf(types.AvailabilityAssignments{})
	tAuthPools        = reflect.TypeOf(types.AuthPools{})
	tAuthPool         = reflect.TypeOf(types.AuthPool{})
	tAuthQueues       = reflect.TypeOf(types.AuthQueues{})
	tAuthQueue        = reflect.TypeOf(types.AuthQueue{})
	tReadyQueue       = reflect.TypeOf(types.ReadyQueue{})
	tAccQueue         = reflect.TypeOf(types.AccumulatedQueue{})
	tTicketsMark      = reflect.TypeOf(types.TicketsMark{})
	tTicketsAcc       = reflect.TypeOf(types.TicketsAccumulator{})
	tBitfield         = reflect.TypeOf(types.Bitfield{})
	tServiceIDList    = reflect.TypeOf(types.ServiceIDList{})
	tBlocksHistory    = reflect.TypeOf(types.BlocksHistory{})
	tEpochMark        = reflect.TypeOf(types.EpochMark{})
	tVerdict          = reflect.TypeOf(types.Verdict{})
	tTicketsOrKeys    = reflect.TypeOf(types.TicketsOrKeys{})
	tWorkExecResult   = reflect.TypeOf(types.WorkExecResult{})
	tImportSpec       = reflect.TypeOf(types.ImportSpec{})
	tOperandOrDT      = reflect.TypeOf(types.OperandOrDeferredTransfer{})
	tTicketAttempt    = reflect.TypeOf(types.TicketAttempt(0))
	tValidatorIndex   = reflect.TypeOf(types.ValidatorIndex(0))
	tCoreIndex        = reflect.TypeOf(types.CoreIndex(0))
	tExportSegment    = reflect.TypeOf(types.ExportSegment{})
	tStateKeyVals     = reflect.TypeOf(types.StateKeyVals{})
	tLookupMeta       = reflect.TypeOf(types.LookupMetaMapEntry{})
	tAccOutput        = reflect.TypeOf(types.AccumulatedServiceOutput{})
	tState            = reflect.TypeOf(types.State{})
)

var execTypes = []types.WorkExecResultType{types.WorkExecResultOk, types.WorkExecResultOutOfGas, types.WorkExecResultPanic, types.WorkExecResultBadExports, types.WorkExecResultReportOversize, types.WorkExecResultBadCode, types.WorkExecResultCodeOversize}

// fixedLen returns the length the codec requires for a slice type, or -1.
func fixedLen(t reflect.Type) int {
	switch t {
	case tValidatorsData, tValidatorsStats:
		return types.ValidatorsCount
	case tCoresStats, tAvailAssignments, tAuthPools, tAuthQueues, tServiceIDList:
		return types.CoresCount
	case tAuthQueue:
		return types.AuthQueueSize
	case tReadyQueue, tAccQueue, tTicketsMark:
		return types.EpochLength
	}
	return -1
}

func (g *gen) fill(v reflect.Value) {
	g.depth++
	defer func() { g.depth-- }()
	t := v.Type()
	switch t {
	case tEpochMark:
		em := v.Addr().Interface().(*types.EpochMark)
		g.fillBytes(em.Entropy[:])
		g.fillBytes(em.TicketsEntropy[:])
		em.Validators = make([]types.EpochMarkValidatorKeys, types.ValidatorsCount)
		for i := range em.Validators {
			g.fill(reflect.ValueOf(&em.Validators[i]).Elem())
		}
		return
	case tVerdict:
		vd := v.Addr().Interface().(*types.Verdict)
		g.fillBytes(vd.Target[:])
		vd.Age = types.U32(g.u64(32))
		vd.Votes = make([]types.Judgement, types.ValidatorsCount*2/3+1)
		for i := range vd.Votes {
			g.fill(reflect.ValueOf(&vd.Votes[i]).Elem())
		}
		return
	case tTicketsOrKeys:
		tk := v.Addr().Interface().(*types.TicketsOrKeys)
		if g.t.Bool("tickets_or_keys") {
			tk.Tickets = make([]types.TicketBody, types.EpochLength)
			for i := range tk.Tickets {
				g.fill(reflect.ValueOf(&tk.Tickets[i]).Elem())
			}
		} else {
			tk.Keys = make([]types.BandersnatchPublic, types.EpochLength)
			for i := range tk.Keys {
				g.fillBytes(tk.Keys[i][:])
			}
		}
		return
	case tWorkExecResult:
		w := v.Addr().Interface().(*types.WorkExecResult)
		w.Type = execTypes[g.t.Pick([]int{6, 1, 1, 1, 1, 1, 1}, "exec_type")]
		if w.Type == types.WorkExecResultOk {
			w.Data = make([]byte, g.t.Pick([]int{2, 2, 2, 1, 1}, "exec_len")*g.t.Range(1, 40, "exec_len_scale"))
			g.fillBytes(w.Data)
		}
		return
	case tImportSpec:
		is := v.Addr().Interface().(*types.ImportSpec)
		if len(g.roots) > 0 && g.t.Bool("import_by_package_hash") {
			is.TreeRoot = g.roots[g.t.Choose(len(g.roots), "import_root")]
		} else {
			g.fillBytes(is.TreeRoot[:])
		}
		is.Index = types.U16(g.u64(15))
		return
	case tOperandOrDT:
		o := v.Addr().Interface().(*types.OperandOrDeferredTransfer)
		if g.t.Bool("operand_or_transfer") {
			o.Operand = new(types.Operand)
			g.fill(reflect.ValueOf(o.Operand).Elem())
		} else {
			o.DeferredTransfer = new(types.DeferredTransfer)
			g.fill(reflect.ValueOf(o.DeferredTransfer).Elem())
		}
		return
	case tTicketAttempt:
		v.SetUint(uint64(g.t.Choose(3, "attempt")))
		return
	case tValidatorIndex:
		v.SetUint(uint64(g.t.Choose(types.ValidatorsCount, "validator_index")))
		return
	case tCoreIndex:
		v.SetUint(uint64(g.t.Choose(types.CoresCount, "core_index")))
		return
	case tBitfield:
		// in memory: one octet (0 or 1) per core; on the wire: packed bits
		bf := make(types.Bitfield, types.CoresCount)
		for i := range bf {
			bf[i] = byte(g.t.Choose(2, "assurance_bit"))
		}
		v.Set(reflect.ValueOf(bf))
		return
	case tAccOutput:
		// a set: the value of every entry is true
		n := g.smallLen(4)
		m := types.AccumulatedServiceOutput{}
		for i := 0; i < n; i++ {
			var k types.AccumulatedServiceHash
			g.fill(reflect.ValueOf(&k).Elem())
			m[k] = true
		}
		v.Set(reflect.ValueOf(m))
		return
	case tState:
		st := v.Addr().Interface().(*types.State)
		for i := 0; i < t.NumField(); i++ {
			if t.Field(i).Name != "Theta" { // the aggregate state format (genesis files) has no field for the last accumulation outputs
				g.fill(v.Field(i))
			}
		}
		_ = st
		return
	case tExportSegment:
		// 4104 octets: one seed decides the content
		seg := v.Addr().Interface().(*types.ExportSegment)
		g.fillBytes(seg[:])
		return
	}
	switch t.Kind() {
	case reflect.Bool:
		v.SetBool(g.t.Bool("bool"))
	case reflect.Uint8, reflect.Uint16, reflect.Uint32, reflect.Uint64, reflect.Uint:
		v.SetUint(g.u64(t.Bits()))
	case reflect.Int8, reflect.Int16, reflect.Int32, reflect.Int64, reflect.Int:
		v.SetInt(int64(g.u64(t.Bits() - 1)))
	case reflect.String:
		b := make([]byte, g.t.Choose(6, "strlen"))
		g.fillBytes(b)
		v.SetString(string(b))
	case reflect.Array:
		if t.Elem().Kind() == reflect.Uint8 {
			b := make([]byte, t.Len())
			g.fillBytes(b)
			reflect.Copy(v, reflect.ValueOf(b))
			return
		}
		for i := 0; i < v.Len(); i++ {
			g.fill(v.Index(i))
		}
	case reflect.Slice:
		n := fixedLen(t)
		if n < 0 {
			switch {
			case t.Elem().Kind() == reflect.Uint8:
				n = g.t.Pick([]int{3, 2, 2, 1, 1}, "blob_len_class")
				n = []int{0, 1, 32, 33, 200}[n]
				if n > 1 {
					n = n - 1 + g.t.Choose(3, "blob_len_jitter")
				}
				if g.big > 0 && g.t.Prob(1, 3, "blob_big") {
					g.big--
					n = []int{4095, 4096, 16383, 16384, 65535, 65536, 65537, 98304, 200000}[g.t.Choose(9, "blob_big_len")]
				}
			case t == tAuthPool:
				n = g.smallLen(types.AuthPoolMaxSize)
			case t == tTicketsAcc:
				n = g.smallLen(types.EpochLength)
			case t == tBlocksHistory:
				n = g.smallLen(types.MaxBlocksHistory)
			case g.depth > 7:
				n = g.t.Choose(2, "deep_len")
			default:
				n = g.smallLen(5)
			}
			if n == 0 && g.t.Bool("nil_slice") {
				return // nil rather than empty
			}
		}
		s := reflect.MakeSlice(t, n, n)
		if t.Elem().Kind() == reflect.Uint8 {
			b := make([]byte, n)
			g.fillBytes(b)
			reflect.Copy(s, reflect.ValueOf(b))
		} else {
			for i := 0; i < n; i++ {
				g.fill(s.Index(i))
			}
		}
		if t == tStateKeyVals || t == tLookupMeta {
			// nothing extra
		}
		v.Set(s)
	case reflect.Map:
		n := g.smallLen(4)
		if n == 0 && g.t.Bool("nil_map") {
			return
		}
		m := reflect.MakeMapWithSize(t, n)
		for i := 0; i < n; i++ {
			k := reflect.New(t.Key()).Elem()
			g.fill(k)
			e := reflect.New(t.Elem()).Elem()
			g.fill(e)
			m.SetMapIndex(k, e)
		}
		v.Set(m)
	case reflect.Ptr:
		if g.t.Prob(1, 3, "nil_pointer") {
			return
		}
		n := reflect.New(t.Elem())
		g.fill(n.Elem())
		v.Set(n)
	case reflect.Struct:
		for i := 0; i < t.NumField(); i++ {
			if t.Field(i).IsExported() {
				g.fill(v.Field(i))
			}
		}
	default:
		panic(fmt.Sprintf("h6: generator does not know kind %v (%v)", t.Kind(), t))
	}
}

// canon prints a value with nil and empty containers identified, pointers followed and
// map entries sorted, so that "a value equal to the original" can be decided.
func canon(b *strings.Builder, v reflect.Value) {
	switch v.Kind() {
	case reflect.Ptr:
		if v.IsNil() {
			b.WriteString("nil")
			return
		}
		b.WriteString("&")
		canon(b, v.Elem())
	case reflect.Slice, reflect.Array:
		if v.Type().Elem().Kind() == reflect.Uint8 {
			n := v.Len()
			bs := make([]byte, n)
			reflect.Copy(reflect.ValueOf(bs), v)
			fmt.Fprintf(b, "x%x", bs)
			return
		}
		b.WriteString("[")
		for i := 0; i < v.Len(); i++ {
			canon(b, v.Index(i))
			b.WriteString(",")
		}
		b.WriteString("]")
	case reflect.Map:
		var items []string
		it := v.MapRange()
		for it.Next() {
			var kb strings.Builder
			canon(&kb, it.Key())
			kb.WriteString("=>")
			canon(&kb, it.Value())
			items = append(items, kb.String())
		}
		sort.Strings(items)
		b.WriteString("{" + strings.Join(items, ";") + "}")
	case reflect.Struct:
		b.WriteString("(")
		for i := 0; i < v.NumField(); i++ {
			if v.Type().Field(i).IsExported() {
				canon(b, v.Field(i))
				b.WriteString("|")
			}
		}
		b.WriteString(")")
	case reflect.String:
		fmt.Fprintf(b, "%q", v.String())
	case reflect.Bool:
		fmt.Fprintf(b, "%v", v.Bool())
	case reflect.Uint8, reflect.Uint16, reflect.Uint32, reflect.Uint64, reflect.Uint:
		fmt.Fprintf(b, "%d", v.Uint())
	case reflect.Int8, reflect.Int16, reflect.Int32, reflect.Int64, reflect.Int:
		fmt.Fprintf(b, "%d", v.Int())
	default:
		fmt.Fprintf(b, "?%v", v.Kind())
	}
}

func canonOf(x any) string {
	var b strings.Builder
	canon(&b, reflect.ValueOf(x))
	return b.String()
}

// ---------------------------------------------------------------------------
// values and their reference encodings
// ---------------------------------------------------------------------------

type value struct {
	pr      proto
	v       any    // *T
	canon   string // of v
	ref     []byte // encoding by a private fresh encoder before the simulation
	refErr  string
	state   *types.State // for State values: also through merklization.StateEncoder
	stateKV []string     // sorted "key=value" lines of the reference StateEncoder run
	msg     *fuzz.Message
	msgRef  []byte
}

func short(b []byte) string {
	if len(b) <= 48 {
		return fmt.Sprintf("%x", b)
	}
	return fmt.Sprintf("%x…%x (%d octets)", b[:24], b[len(b)-16:], len(b))
}

func firstDiff(a, b []byte) int {
	n := len(a)
	if len(b) < n {
		n = len(b)
	}
	for i := 0; i < n; i++ {
		if a[i] != b[i] {
			return i
		}
	}
	return n
}

func kvLines(kvs types.StateKeyVals) []string {
	out := make([]string, 0, len(kvs))
	for _, kv := range kvs {
		h := blake2b.Sum256(kv.Value)
		out = append(out, fmt.Sprintf("%x=%d:%x", kv.Key[:], len(kv.Value), h[:8]))
	}
	sort.Strings(out)
	return out
}

func encodeWith(e *types.Encoder, val *value, hsm types.HashSegmentMap) ([]byte, error) {
	if val.pr.hsm {
		e.SetHashSegmentMap(hsm)
	}
	return e.Encode(val.v)
}

// strLen: string lengths at the boundaries of the compact length prefix (one, two, three octets)
func strLen(t *sim.Tape, small int) int {
	switch t.Pick([]int{6, 1, 1, 1, 1, 1, 1, 1}, "strlen_class") {
	case 1:
		return 127 + t.Choose(3, "strlen_127")
	case 2:
		return 16383
	case 3:
		return 16384 + t.Choose(3, "strlen_16384")
	case 4:
		return 20000 + t.Choose(1000, "strlen_20000")
	case 5:
		return 70000
	case 6:
		return 255 + t.Choose(3, "strlen_255")
	case 7:
		return 0
	}
	return t.Choose(small, "strlen_small")
}

func mkMessage(g *gen, vals []*value) *fuzz.Message {
	t := g.t
	switch t.Choose(7, "msg_kind") {
	case 0:
		pi := &fuzz.PeerInfo{FuzzVersion: uint8(t.Choose(256, "fv")), FuzzFeatures: fuzz.Features(g.u64(32)),
			JamVersion: fuzz.Version{Major: uint8(t.Choose(256, "v")), Minor: uint8(t.Choose(256, "v")), Patch: uint8(t.Choose(256, "v"))},
			AppVersion: fuzz.Version{Major: uint8(t.Choose(256, "v")), Minor: uint8(t.Choose(256, "v")), Patch: uint8(t.Choose(256, "v"))}}
		name := make([]byte, strLen(t, 20))
		seedc := t.Choose(26, "name")
		for i := range name {
			name[i] = 'a' + byte((seedc+i)%26)
		}
		pi.AppName = string(name)
		return &fuzz.Message{Type: fuzz.MessageType_PeerInfo, PeerInfo: pi}
	case 1:
		var b types.Block
		g.fill(reflect.ValueOf(&b).Elem())
		ib := fuzz.ImportBlock(b)
		return &fuzz.Message{Type: fuzz.MessageType_ImportBlock, ImportBlock: &ib}
	case 2:
		var s fuzz.SetState
		g.fill(reflect.ValueOf(&s).Elem())
		return &fuzz.Message{Type: fuzz.MessageType_SetState, SetState: &s}
	case 3:
		var h fuzz.GetState
		g.fillBytes(h[:])
		return &fuzz.Message{Type: fuzz.MessageType_GetState, GetState: &h}
	case 4:
		var h fuzz.StateRoot
		g.fillBytes(h[:])
		return &fuzz.Message{Type: fuzz.MessageType_StateRoot, StateRoot: &h}
	case 5:
		var kv types.StateKeyVals
		g.fill(reflect.ValueOf(&kv).Elem())
		st := fuzz.State(kv)
		return &fuzz.Message{Type: fuzz.MessageType_State, State: &st}
	default:
		txt := make([]byte, strLen(t, 30))
		seede := t.Choose(90, "err")
		for i := range txt {
			txt[i] = ' ' + byte((seede+i*7)%90)
		}
		return &fuzz.Message{Type: fuzz.MessageType_ErrorMessage, Error: &fuzz.ErrorMessage{Error: string(txt)}}
	}
}

// ---------------------------------------------------------------------------
// one run
// ---------------------------------------------------------------------------

type held struct {
	val  *value
	out  []byte // exactly the slice the codec returned (not copied)
	task int
	step int
	how  string
}

type simCfg struct {
	reference bool // one deterministic arm: sorted maps, fresh encoders only, first runnable goroutine
	mapMode   int  // 0 sorted, 1 reversed, 2 tape permutation
	poolMode  int  // 0 newest pooled encoder first, 1 tape, 2 oldest first
}

// simulate runs the tasks as simulated goroutines inside a synctest bubble: one runnable goroutine at a time,
// chosen from the tape (reference: the first), every pool hand-out and map iteration order decided by cfg.
func simulate(tt *testing.T, t *sim.Tape, cfg simCfg, tasks []func(), r *sim.Run) (steps int, stuck bool) {
	defer func() {
		if v := recover(); v != nil {
			if strings.Contains(fmt.Sprint(v), "deadlock") {
				stuck = true
				return
			}
			panic(v)
		}
	}()
	synctest.Test(tt, func(*testing.T) {
		s := simrt.New(t.Choose)
		switch {
		case cfg.reference:
		case cfg.mapMode == 1:
			s.MapOrder = func(n int, site string) []int {
				pm := make([]int, n)
				for i := range pm {
					pm[i] = n - 1 - i
				}
				return pm
			}
		case cfg.mapMode == 2:
			s.MapOrder = func(n int, site string) []int { return t.Perm(n, "maporder") }
		}
		s.PoolChoice = func(n int, site string) int {
			if cfg.reference {
				if n == 0 {
					return 1 // never pooled
				}
				return 0 // always fresh
			}
			if n == 0 {
				if t.Prob(1, 10, "pool_put_lost") {
					return 1
				}
				return 0
			}
			switch cfg.poolMode {
			case 0:
				return n - 1 // newest pooled encoder, fresh only when the pool is empty
			case 2:
				if n > 1 {
					return 1
				}
				return 0
			}
			return t.Choose(n, "pool_get")
		}
		s.Attach()
		done := 0
		for k, task := range tasks {
			task := task
			s.Spawn(fmt.Sprintf("task%d", k), fmt.Sprintf("task%d", k), nil, func() {
				defer func() { done++ }()
				task()
			})
		}
		for steps = 0; steps < 400000 && done < len(tasks); steps++ {
			s.Quiesce()
			run := s.Runnable()
			if len(run) == 0 {
				if done >= len(tasks) {
					break
				}
				if !s.Idle(time.Second) {
					stuck = true
					break
				}
				continue
			}
			if cfg.reference {
				s.Release(run[0])
			} else {
				s.Release(run[t.Choose(len(run), "who")])
			}
		}
		s.Quiesce()
		if r != nil {
			r.Count("probe:pool_encoder_reused", s.PoolReused)
			r.Count("probe:pool_encoder_fresh", s.PoolFresh)
			r.Count("fault:pool_put_lost", s.PoolLost)
			r.Count("fault:schedule_decisions", int64(steps))
			r.Count("probe:lock_contended", s.LockWaits)
		}
		if s.Live() == 0 {
			s.Detach()
		} else {
			stuck = true
		}
	})
	return steps, stuck
}

func runOne(tt *testing.T, r *sim.Run) {
	t := r.T
	g := &gen{t: t, hsm: types.HashSegmentMap{}}
	for i := t.Choose(3, "hsm_entries"); i > 0; i-- {
		var k, v types.OpaqueHash
		g.fillBytes(k[:])
		g.fillBytes(v[:])
		if _, dup := g.hsm[k]; !dup {
			g.hsm[k] = v
			g.roots = append(g.roots, k)
		}
	}
	weights := make([]int, len(protos))
	for i, pr := range protos {
		weights[i] = pr.weight
		if only := os.Getenv("H6_ONLY"); only != "" && only != pr.name { // development aid: one type at a time
			weights[i] = 0
		}
	}
	nVals := t.Range(3, 10, "nvalues")
	var vals []*value
	for i := 0; i < nVals; i++ {
		val := &value{}
		if t.Prob(1, 8, "value_is_message") {
			val.msg = mkMessage(g, vals)
			val.pr = proto{name: fmt.Sprintf("fuzz.Message(type %d)", val.msg.Type)}
		} else {
			val.pr = protos[t.Pick(weights, "proto")]
			val.v = val.pr.mk()
			g.depth = 0
			g.big = 0
			if t.Prob(1, 10, "value_with_big_blobs") {
				g.big = 1 + t.Choose(2, "big_blobs")
			}
			g.fill(reflect.ValueOf(val.v).Elem())
			val.canon = canonOf(val.v)
			if st, ok := val.v.(*types.State); ok {
				cp := *st
				g.fill(reflect.ValueOf(&cp.Theta).Elem())
				val.state = &cp
			}
		}
		vals = append(vals, val)
	}

	// ---- reference encodings: private fresh encoder, sorted map order, nothing pooled is ever reused, one task,
	// first-runnable schedule (the state serialiser's own goroutines are simulated goroutines too)
	fail := func(class, sig, format string, a ...any) {
		r.Violate(prop, class, sig, format, a...)
	}
	_, refStuck := simulate(tt, t, simCfg{reference: true}, []func(){func() {
		for _, val := range vals {
			if val.msg != nil {
				b, err := val.msg.MarshalBinary()
				if err != nil {
					val.refErr = err.Error()
				}
				val.msgRef = b
				continue
			}
			b, err := encodeWith(types.NewEncoder(), val, g.hsm)
			if err != nil {
				val.refErr = err.Error()
			}
			val.ref = b
			if val.state != nil && err == nil {
				kvs, err := merklization.StateEncoder(*val.state)
				if err == nil {
					val.stateKV = kvLines(kvs)
				}
			}
		}
	}}, nil)
	if refStuck {
		panic("h6: the reference run (one task, nothing pooled) did not finish")
	}
	for _, val := range vals {
		if val.refErr != "" {
			// the generator produced something the codec refuses: not a statement about the codec
			r.Count("generator:value_refused_by_encoder:"+val.pr.name, 1)
			r.Logf("reference encoder refused %s: %s", val.pr.name, val.refErr)
		}
	}

	// ---- the simulation
	nTasks := t.Range(1, 4, "ntasks")
	mapMode := t.Choose(3, "mapmode")
	poolMode := t.Choose(3, "poolmode") // 0: always reuse the newest, 1: tape, 2: prefer the oldest
	type op struct{ kind, val int }
	plans := make([][]op, nTasks)
	for k := range plans {
		n := t.Range(2, 8, "nops")
		for i := 0; i < n; i++ {
			plans[k] = append(plans[k], op{kind: t.Pick([]int{6, 3, 4, 2, 2}, "op"), val: t.Choose(len(vals), "op_value")})
		}
	}
	var helds []*held
	var tasks []func()
	for k := 0; k < nTasks; k++ {
		k := k
		tasks = append(tasks, func() {
			defer func() {
				if v := recover(); v != nil {
					if strings.Contains(fmt.Sprint(v), "h6:") {
						panic(v)
					}
					fail("panic", "codec-panicked", "task %d: the codec panicked: %v", k, v)
				}
			}()
			for i, o := range plans[k] {
				simrt.Yield("h6:step")
				doOp(r, g, vals[o.val], o.kind, k, i, &helds, fail)
			}
		})
	}
	steps, stuck := simulate(tt, t, simCfg{mapMode: mapMode, poolMode: poolMode}, tasks, r)
	if stuck {
		fail("stuck", "tasks-do-not-finish", "the codec tasks did not finish under this schedule (%d decisions)", steps)
		return
	}
	// ---- results kept by the tasks must not have changed while the pooled encoders were reused
	for _, h := range helds {
		want := h.val.ref
		if h.val.msg != nil {
			want = h.val.msgRef
		}
		if !bytes.Equal(h.out, want) {
			fail("aliasing", "kept-encoding-changed-later:"+h.how, "%s of a %s returned to task %d (step %d) was correct when returned but differs at the end of the run, after other encodings went through the pool: first difference at octet %d\n now:  %s\n then: %s",
				h.how, h.val.pr.name, h.task, h.step, firstDiff(h.out, want), short(h.out), short(want))
			break
		}
	}
	if nTasks >= 2 {
		r.Nontrivial()
	}
	var names []string
	for _, v := range vals {
		names = append(names, v.pr.name)
	}
	r.ShapeStr(strings.Join(names, ","))
	r.Summary("%d values (%s), %d tasks, map order %s, pool %s, %d schedule decisions", len(vals), strings.Join(names, ","), nTasks,
		[]string{"sorted", "reversed", "random"}[mapMode], []string{"newest-first", "tape", "oldest-first"}[poolMode], steps)
}

// doOp performs one codec operation of one task; it runs on a simulated goroutine.
func doOp(r *sim.Run, g *gen, val *value, kind, task, step int, helds *[]*held, fail func(class, sig, format string, a ...any)) {
	name := val.pr.name
	if val.msg != nil {
		// fuzz-protocol message: MarshalBinary, then the stream reader
		b, err := val.msg.MarshalBinary()
		r.Count("op:message_marshal", 1)
		if (err != nil) != (val.refErr != "") {
			fail("differs", "message-marshal-error-differs", "%s: MarshalBinary error %v inside the simulation, %q before it", name, err, val.refErr)
			return
		}
		if err != nil {
			return
		}
		if !bytes.Equal(b, val.msgRef) {
			fail("differs", "message-encoding-differs", "%s: MarshalBinary gives different octets for the same message (first difference at %d)\n sim: %s\n ref: %s", name, firstDiff(b, val.msgRef), short(b), short(val.msgRef))
			return
		}
		*helds = append(*helds, &held{val: val, out: b, task: task, step: step, how: "MarshalBinary"})
		var back fuzz.Message
		n, err := back.ReadFrom(bytes.NewReader(b))
		if err != nil {
			fail("roundtrip", "message-does-not-read-back", "%s: ReadFrom refuses the octets MarshalBinary produced: %v", name, err)
			return
		}
		if int(n) != len(b) {
			fail("roundtrip", "message-consumed-differs", "%s: ReadFrom consumed %d of %d octets", name, n, len(b))
			return
		}
		b2, err := back.MarshalBinary()
		if err != nil || !bytes.Equal(b2, b) {
			fail("roundtrip", "message-reencoding-differs", "%s: the message read back marshals differently (err=%v, first difference at %d)", name, err, firstDiff(b2, b))
		}
		return
	}
	if val.refErr != "" {
		return
	}
	switch kind {
	case 0, 1: // encode through the shared pool (1: hash.HashEncode for values that need no dictionary)
		if kind == 1 && !val.pr.hsm {
			h, err := hash.HashEncode(val.v.(types.Encodable))
			r.Count("op:hash_encode", 1)
			want := types.OpaqueHash(blake2b.Sum256(val.ref))
			if err != nil {
				fail("differs", "encode-error-differs", "HashEncode(%s) fails inside the simulation (%v), a fresh encoder encoded it", name, err)
			} else if h != want {
				fail("differs", "hash-of-encoding-differs", "HashEncode(%s) = %x, hash of the reference encoding = %x", name, h[:8], want[:8])
			}
			return
		}
		e := types.GetEncoder()
		b, err := encodeWith(e, val, g.hsm)
		simrt.Yield("h6:before_put")
		types.PutEncoder(e)
		r.Count("op:pooled_encode", 1)
		if err != nil {
			fail("differs", "encode-error-differs", "pooled encoder refuses %s (%v), a fresh encoder encoded it", name, err)
			return
		}
		if !bytes.Equal(b, val.ref) {
			fail("differs", "encoding-differs", "%s: the pooled encoder gives different octets for the same value (first difference at %d; lengths %d vs %d)\n sim: %s\n ref: %s", name, firstDiff(b, val.ref), len(b), len(val.ref), short(b), short(val.ref))
			return
		}
		*helds = append(*helds, &held{val: val, out: b, task: task, step: step, how: "Encode"})
	case 2: // decode the reference encoding, compare the value, encode it again through the pool
		if _, ok := val.v.(decodable); !ok {
			return
		}
		back := val.pr.mk()
		d := types.NewDecoder()
		if val.pr.hsm {
			d.SetHashSegmentMap(g.hsm)
		}
		n, err := d.DecodeWithConsumed(val.ref, back)
		r.Count("op:decode", 1)
		if err != nil {
			fail("roundtrip", "decode-refuses-own-encoding:"+name, "%s: decoding its own encoding fails: %v\n encoding: %s", name, err, short(val.ref))
			return
		}
		if n != len(val.ref) {
			fail("roundtrip", "decode-consumed-differs:"+name, "%s: decoding consumed %d of %d octets", name, n, len(val.ref))
			return
		}
		if c := canonOf(back); c != val.canon {
			i := firstDiff([]byte(c), []byte(val.canon))
			lo := i - 60
			if lo < 0 {
				lo = 0
			}
			hiA, hiB := i+60, i+60
			if hiA > len(c) {
				hiA = len(c)
			}
			if hiB > len(val.canon) {
				hiB = len(val.canon)
			}
			fail("roundtrip", "decoded-value-differs:"+name, "%s: the decoded value is not the original\n decoded:  …%s…\n original: …%s…", name, c[lo:hiA], val.canon[lo:hiB])
			return
		}
		e := types.GetEncoder()
		bv := &value{pr: val.pr, v: back}
		b, err := encodeWith(e, bv, g.hsm)
		types.PutEncoder(e)
		if err != nil || !bytes.Equal(b, val.ref) {
			fail("roundtrip", "reencoding-differs:"+name, "%s: the decoded value encodes differently (err=%v, first difference at %d)", name, err, firstDiff(b, val.ref))
			return
		}
		*helds = append(*helds, &held{val: val, out: b, task: task, step: step, how: "Encode(decoded)"})
	case 3: // an encoding that must fail whatever the pool hands out: import specs without a dictionary
		if !val.pr.hsm {
			return
		}
		if !hasImportSpec(val.v) {
			return
		}
		e := types.GetEncoder()
		_, err := e.Encode(val.v)
		types.PutEncoder(e)
		r.Count("op:encode_without_dictionary", 1)
		if err == nil {
			fail("pool", "pooled-encoder-kept-dictionary", "%s with import specs was encoded by a pooled encoder on which no segment-root dictionary was set: the encoder kept the dictionary of an earlier user", name)
		}
	case 4: // whole-state serialisation (uses the pool from several places)
		if val.state == nil || val.stateKV == nil {
			return
		}
		kvs, err := merklization.StateEncoder(*val.state)
		r.Count("op:state_encoder", 1)
		if err != nil {
			fail("differs", "state-encoder-error-differs", "StateEncoder fails inside the simulation: %v", err)
			return
		}
		got := kvLines(kvs)
		if strings.Join(got, "\n") != strings.Join(val.stateKV, "\n") {
			d := ""
			for i := range val.stateKV {
				if i >= len(got) || got[i] != val.stateKV[i] {
					d = val.stateKV[i]
					break
				}
			}
			fail("differs", "state-key-values-differ", "StateEncoder gives a different key-value set for the same state (%d vs %d entries; first reference entry without a match: %s)", len(got), len(val.stateKV), d)
		}
	}
}

func hasImportSpec(v any) bool {
	switch x := v.(type) {
	case *types.ImportSpec:
		return true
	case *types.WorkItem:
		return len(x.ImportSegments) > 0
	case *types.WorkPackage:
		for _, it := range x.Items {
			if len(it.ImportSegments) > 0 {
				return true
			}
		}
	case *types.WorkPackageBundle:
		for _, it := range x.Package.Items {
			if len(it.ImportSegments) > 0 {
				return true
			}
		}
	}
	return false
}

func TestVerifH6(t *testing.T) {
	os.Setenv("JAM_FUZZ", "1")
	for _, pr := range protos {
		if _, ok := pr.mk().(types.Encodable); !ok {
			t.Fatalf("h6: %s is not Encodable", pr.name)
		}
	}
	ok, msg := sim.WorkerMain(func(r *sim.Run) { runOne(t, r) })
	if !ok {
		t.Fatal(msg)
	}
	if msg != "" {
		t.Log(msg)
	}
}
