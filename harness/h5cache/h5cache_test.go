//go:build verif

// H5-C16: histories of state-root computations on a live ChainState whose
// per-key leaf-hash cache survives between computations. The simulator owns the
// history (entry set evolution), the capacity knob (MaxKeyLevelCacheSize, so
// clear-at-capacity fires in the middle of a trie walk), explicit cache clears
// and instance resets. Oracle: the repository's uncached root for the same
// entries; an independent bit-level reference trie is evaluated as a by-product.
package h5cache_test

import (
	"bytes"
	"fmt"
	"os"
	"sort"
	"testing"

	"github.com/New-JAMneration/JAM-Protocol/internal/blockchain"
	"github.com/New-JAMneration/JAM-Protocol/internal/types"
	"github.com/New-JAMneration/JAM-Protocol/internal/utilities/merklization"
	"github.com/New-JAMneration/JAM-Protocol/internal/zzverif/sim"
	"golang.org/x/crypto/blake2b"
)

const prop = "C16"

func refHash(b []byte) [32]byte { return blake2b.Sum256(b) }

func bit(k []byte, i int) bool { return k[i/8]&(1<<(7-uint(i%8))) != 0 }

type kv struct {
	k [31]byte
	v []byte
}

// refTrie is the Gray Paper appendix D trie, written independently of the repo.
func refTrie(e []kv, depth int) [32]byte {
	if len(e) == 0 {
		return [32]byte{}
	}
	if len(e) == 1 {
		var n [64]byte
		if len(e[0].v) <= 32 {
			n[0] = 0x80 | byte(len(e[0].v))
			copy(n[1:32], e[0].k[:])
			copy(n[32:], e[0].v)
		} else {
			n[0] = 0xC0
			copy(n[1:32], e[0].k[:])
			h := refHash(e[0].v)
			copy(n[32:], h[:])
		}
		return refHash(n[:])
	}
	var l, r []kv
	for _, x := range e {
		if bit(x.k[:], depth) {
			r = append(r, x)
		} else {
			l = append(l, x)
		}
	}
	lh, rh := refTrie(l, depth+1), refTrie(r, depth+1)
	var n [64]byte
	copy(n[:32], lh[:])
	n[0] &= 0x7f
	copy(n[32:], rh[:])
	return refHash(n[:])
}

func runOne(r *sim.Run) {
	t := r.T
	blockchain.ResetInstance()
	cs := blockchain.GetInstance()
	caps := []int{1, 2, 3, 7, 64, 600}
	types.MaxKeyLevelCacheSize = caps[t.Choose(len(caps), "cap")]
	defer func() { types.MaxKeyLevelCacheSize = types.EpochLength * 50 }()

	// key pool: a few stems, each with variants that differ only in late bits
	nStem := t.Range(1, 4, "stems")
	var pool [][31]byte
	for s := 0; s < nStem; s++ {
		var stem [31]byte
		copy(stem[:], t.Bytes(31, "stem"))
		if s > 0 && t.Bool("sharestem") {
			stem = pool[0]
			stem[t.Choose(31, "b")] ^= byte(1 << t.Choose(8, "bb"))
		}
		pool = append(pool, stem)
		nVar := t.Range(0, 12, "variants")
		for v := 0; v < nVar; v++ {
			k := stem
			nb := t.Range(1, 3, "nbits")
			for i := 0; i < nb; i++ {
				pos := 247 - t.Choose(t.Pick([]int{1, 1, 1}, "depthclass")*100+8, "bitpos")
				if pos < 0 {
					pos = 0
				}
				k[pos/8] ^= 1 << (7 - uint(pos%8))
			}
			pool = append(pool, k)
		}
	}
	set := map[[31]byte][]byte{}
	graveyard := map[[31]byte][]byte{} // last value of removed keys (for re-insertion with the same value)
	valCtr := 0
	newVal := func(n int) []byte {
		valCtr++
		b := bytes.Repeat([]byte{byte(valCtr)}, n)
		if n >= 2 {
			b[0], b[1] = byte(valCtr>>8), byte(valCtr)
		}
		return b
	}
	randLen := func() int {
		return []int{0, 1, 31, 32, 33, 34, 64, 100}[t.Choose(8, "vlen")]
	}
	keysSorted := func() [][31]byte {
		ks := make([][31]byte, 0, len(set))
		for k := range set {
			ks = append(ks, k)
		}
		sort.Slice(ks, func(i, j int) bool { return bytes.Compare(ks[i][:], ks[j][:]) < 0 })
		return ks
	}
	nSteps := t.Range(1, 200, "steps")
	// a state with more entries than the cache holds at its REAL capacity (E*50 = 600 in the tiny configuration): the
	// clear-at-capacity then fires in the middle of ordinary computations, not only under the shrunken knob values
	bulk := false
	if t.Prob(1, 10, "bulk_state") {
		bulk = true
		types.MaxKeyLevelCacheSize = types.EpochLength * 50
		// around the real capacity (the clear fires mid-computation), or hundreds of entries that all stay cached
		// (anything that treats large entry sets differently from small ones - batching, chunking, parallel walks -
		// starts to matter at sizes the small pools never reach; sizes are not multiples of anything in particular)
		n := types.MaxKeyLevelCacheSize - 3 + t.Choose(700, "bulk_entries")
		if t.Prob(1, 2, "bulk_below_capacity") {
			n = 65 + t.Choose(types.MaxKeyLevelCacheSize-70, "bulk_entries_cached")
		}
		for i := 0; i < n; i++ {
			h := refHash([]byte{byte(i), byte(i >> 8), 0xB7})
			var k [31]byte
			copy(k[:], h[:31])
			set[k] = newVal([]int{0, 5, 32, 33, 80}[i%5])
		}
		nSteps = t.Range(3, 12, "bulk_steps")
		if n > types.MaxKeyLevelCacheSize {
			r.Count("probe:more_entries_than_the_real_cache_capacity", 1)
		} else {
			r.Count("probe:hundreds_of_entries_all_cached", 1)
		}
	}
	// which entry an edit hits: in a large set mostly the ends of the supplied order (first and last few entries), where
	// chunked or batched walks have their remainders
	pickKey := func(ks [][31]byte, label string) [31]byte {
		if bulk && len(ks) > 16 && t.Prob(2, 3, "bulk_edit_at_ends") {
			i := t.Choose(8, "bulk_end_offset")
			if t.Bool("bulk_edit_tail") {
				return ks[len(ks)-1-i]
			}
			return ks[i]
		}
		return ks[t.Choose(len(ks), label)]
	}
	if r.Tier == "quick" && nSteps > 80 {
		nSteps = 80
	}
	computes := 0
	var hist []string
	for step := 0; step < nSteps && !r.Violated(); step++ {
		w := []int{6, 3, 3, 2, 2, 1, 1, 1, 10, 3, 2}
		if bulk { // few steps: mostly edits and computations
			w = []int{1, 1, 4, 2, 1, 0, 0, 0, 10, 2, 4}
		}
		op := t.Pick(w, "op")
		if bulk && step == 0 {
			op = 8 // the large set is computed (and cached) before anything changes
		}
		ks := keysSorted()
		switch op {
		case 0: // add
			k := pool[t.Choose(len(pool), "addkey")]
			if _, ok := set[k]; !ok {
				set[k] = newVal(randLen())
				hist = append(hist, fmt.Sprintf("add %x..(%d)", k[28:], len(set[k])))
			}
		case 1: // remove
			if len(ks) > 0 {
				k := ks[t.Choose(len(ks), "rm")]
				graveyard[k] = set[k]
				delete(set, k)
				hist = append(hist, fmt.Sprintf("rm %x..", k[28:]))
			}
		case 2: // change value keeping its length
			if len(ks) > 0 {
				k := pickKey(ks, "chg")
				if len(set[k]) > 0 {
					set[k] = newVal(len(set[k]))
					r.Count("probe:value_changed_same_length", 1)
					hist = append(hist, fmt.Sprintf("chg %x..(%d)", k[28:], len(set[k])))
				}
			}
		case 3: // flip embedded <-> hashed
			if len(ks) > 0 {
				k := pickKey(ks, "flip")
				if len(set[k]) <= 32 {
					set[k] = newVal(33 + t.Choose(40, "long"))
				} else {
					set[k] = newVal(t.Choose(33, "short"))
				}
				r.Count("probe:embedded_hashed_flip", 1)
				hist = append(hist, fmt.Sprintf("flip %x..(%d)", k[28:], len(set[k])))
			}
		case 4: // re-insert a removed key (same value or a new one)
			for _, k := range pool {
				if v, dead := graveyard[k]; dead {
					if _, live := set[k]; !live {
						if t.Bool("samevalue") {
							set[k] = v
						} else {
							set[k] = newVal(randLen())
						}
						delete(graveyard, k)
						r.Count("probe:key_reinserted", 1)
						hist = append(hist, fmt.Sprintf("reins %x..(%d)", k[28:], len(set[k])))
						break
					}
				}
			}
		case 9: // the value grows or shrinks by zero octets (state values are full of them: counters, balances, empty lists)
			if len(ks) > 0 {
				k := pickKey(ks, "pad")
				v := append([]byte(nil), set[k]...)
				if len(v) > 0 && t.Bool("trim") {
					v = v[:len(v)-1-t.Choose(min(len(v), 3), "trim_n")]
				} else {
					v = append(v, make([]byte, 1+t.Choose(3, "pad_n"))...)
				}
				if t.Prob(1, 4, "zero_tail") {
					for i := len(v) / 2; i < len(v); i++ {
						v[i] = 0
					}
				}
				set[k] = v
				r.Count("probe:value_padded_or_trimmed_with_zero_octets", 1)
				hist = append(hist, fmt.Sprintf("pad %x..(%d)", k[28:], len(v)))
			}
		case 10: // one octet of the value changes (any position, also to zero)
			if len(ks) > 0 {
				k := pickKey(ks, "edit")
				if v := append([]byte(nil), set[k]...); len(v) > 0 {
					p := t.Choose(len(v), "edit_pos")
					nv := []byte{0, 1, v[p] ^ 0x80, v[p] + 1}[t.Choose(4, "edit_val")]
					if nv != v[p] {
						v[p] = nv
						set[k] = v
						r.Count("probe:value_one_octet_changed", 1)
						hist = append(hist, fmt.Sprintf("edit %x..[%d]", k[28:], p))
					}
				}
			}
		case 5:
			cs.ClearKeyLevelCache()
			r.Count("fault:cache_cleared", 1)
			hist = append(hist, "clear")
		case 6:
			blockchain.ResetInstance()
			cs = blockchain.GetInstance()
			r.Count("fault:instance_reset", 1)
			hist = append(hist, "reset")
		case 7:
			types.MaxKeyLevelCacheSize = caps[t.Choose(len(caps), "cap")]
			hist = append(hist, fmt.Sprintf("cap=%d", types.MaxKeyLevelCacheSize))
		case 8: // compute
			ks = keysSorted()
			in := make(types.StateKeyVals, len(ks))
			ref := make([]kv, len(ks))
			order := make([]int, len(ks))
			for i := range order {
				order[i] = i
			}
			if t.Prob(1, 4, "permute") {
				order = t.Perm(len(ks), "perm")
			}
			for i, j := range order {
				k := ks[j]
				in[i] = types.StateKeyVal{Key: types.StateKey(k), Value: append(types.ByteSequence(nil), set[k]...)}
				ref[i] = kv{k, set[k]}
			}
			if len(ks) > types.MaxKeyLevelCacheSize {
				r.Count("probe:capacity_exceeded_during_walk", 1)
			}
			cached := cs.ComputeStateRootWithCache(in)
			plain := merklization.MerklizationSerializedState(in)
			computes++
			if cached != plain {
				r.Violate(prop, "cached-root-differs", "cached-root-differs-from-uncached", "computation %d (cap=%d, %d entries) after [%v]: cached root %x != uncached root %x", computes, types.MaxKeyLevelCacheSize, len(ks), hist, cached[:6], plain[:6])
				break
			}
			if rr := refTrie(ref, 0); types.StateRoot(rr) != plain {
				// the uncached root itself disagrees with the reference trie: that is C15 (not claimed here)
				r.Count("byproduct:uncached_root_differs_from_reference_trie", 1)
			}
			hist = append(hist, fmt.Sprintf("root(%d)", len(ks)))
			if len(hist) > 40 {
				hist = hist[len(hist)-40:]
			}
		}
	}
	if computes >= 3 && len(pool) >= 3 {
		r.Nontrivial()
	}
	r.Shape(uint64(computes)<<16 ^ uint64(len(pool)))
	r.Summary("cap=%d pool=%d steps=%d computes=%d tail=%v", types.MaxKeyLevelCacheSize, len(pool), nSteps, computes, hist)
}

func TestVerifH5Cache(t *testing.T) {
	os.Setenv("JAM_FUZZ", "1")
	ok, msg := sim.WorkerMain(runOne)
	if !ok {
		t.Fatal(msg)
	}
	if msg != "" {
		t.Log(msg)
	}
}
