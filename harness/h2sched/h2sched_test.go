//go:build verif

// H2 sched-sim (C22): one generated accumulation round – several services whose
// code records the order in which it observes its incoming items and emits many
// transfers – is executed K times through the real OuterAccumulation /
// ParallelizedAccumulation / SingleServiceAccumulation / Psi_A under different
// (a) goroutine schedules (park/release scheduler over the instrumented
// errgroup / RWMutex / singleflight seams, one yield per host call),
// (b) worker-pool sizes (types.MaxWorkers) and (c) map iteration orders (every
// `range` over a map in the instrumented files iterates a tape-chosen
// permutation of the sorted keys). All K posterior results must be identical.
package h2sched_test

import (
	"bytes"
	"fmt"
	"math/big"
	"os"
	"sort"
	"strings"
	"testing"
	"testing/synctest"
	"time"

	"github.com/New-JAMneration/JAM-Protocol/internal/accumulation"
	"github.com/New-JAMneration/JAM-Protocol/internal/blockchain"
	"github.com/New-JAMneration/JAM-Protocol/internal/types"
	"github.com/New-JAMneration/JAM-Protocol/internal/zzverif/pvmasm"
	"github.com/New-JAMneration/JAM-Protocol/internal/zzverif/sim"
	"github.com/New-JAMneration/JAM-Protocol/internal/zzverif/simrt"
	"golang.org/x/crypto/blake2b"
)

const prop = "C22"

func h256(b []byte) types.OpaqueHash { return types.OpaqueHash(blake2b.Sum256(b)) }

type xfer struct {
	dest types.ServiceID
	amt  uint64
	gas  uint64
}

type svcPlan struct {
	id          types.ServiceID
	xfers       []xfer
	yield       bool
	yieldItems  bool // the yielded hash is taken from the items of the invocation (differs from round to round)
	bless       bool // manager re-blesses (changes privileges)
	assign      int  // core to re-assign (−1: none)
	blob        []byte
	codeH       types.OpaqueHash
	meta        []byte
	fetches     int
	peek        types.ServiceID   // service whose info is read and stored (0: none)
	ejects      []types.ServiceID // zombie services this one ejects (before its transfers)
	creates     int               // services this one creates (merged into the posterior accounts from several results)
	preimageOps int               // 0 none, 1 solicit, 2 solicit + provide, 3 solicit + provide + forget (all in one invocation)
}

type scenario struct {
	svcs           []*svcPlan
	reports        []types.WorkReport
	always         types.AlwaysAccumulateMap
	manager        types.ServiceID
	assigner       []types.ServiceID
	desig          types.ServiceID
	registr        types.ServiceID
	tau            types.TimeSlot
	eta            types.EntropyBuffer
	maxIn          map[types.ServiceID]int
	desc           string
	zombies        map[types.ServiceID]types.ServiceID // ejectable account -> the service that may eject it
	viaIntegration bool                                // run accumulation.DeferredTransfers() instead of OuterAccumulation()
}

var zombieLookup = types.LookupMetaMapkey{Hash: h256([]byte("zombie-code")), Length: 40}

func encodeMetaCode(code []byte) []byte {
	mc := types.MetaCode{Metadata: types.ByteSequence("verif"), Code: types.ByteSequence(code)}
	b, err := types.NewEncoder().Encode(&mc)
	if err != nil {
		panic(err)
	}
	return b
}

func u32le(v uint32) []byte { return []byte{byte(v), byte(v >> 8), byte(v >> 16), byte(v >> 24)} }

// buildProgram: fetch all incoming items; if any, write them under key "in" (so the
// observed order becomes state); checkpoint (the record survives running out of gas
// later); optional privileged calls; emit the planned transfers; optional yield; halt.
func buildProgram(p *svcPlan, nCores int, all []types.ServiceID) []byte {
	d := &pvmasm.Data{}
	a := pvmasm.New()
	const bufLen = 8192
	buf := d.Reserve(bufLen)
	key := d.Put([]byte("in"))
	// fetch(kind 14 = all operands/transfers) -> buf, r7 = length or NONE
	a.LoadImm64(7, buf)
	a.LoadImm64(8, 0)
	a.LoadImm64(9, bufLen)
	a.LoadImm64(10, 14)
	a.Ecalli(1)
	a.MoveReg(10, 7) // vz = length
	// skip the write when there was nothing to fetch (r10 == NONE)
	a.BranchEqImm8(10, 0xFF, 7+32+1)
	a.LoadImm64(7, key)
	a.LoadImm64(8, 2)
	a.LoadImm64(9, buf)
	a.Ecalli(4) // write("in", buf[:len])
	a.Fallthrough()
	a.Ecalli(17) // checkpoint (branch target: starts a basic block)
	if p.peek != 0 {
		// look at another service's account (as of the prior state) and store what was seen: makes
		// isolation between concurrently accumulating services observable
		info := d.Reserve(96)
		a.LoadImm64(7, uint64(p.peek))
		a.LoadImm64(8, info)
		a.LoadImm64(9, 0)
		a.LoadImm64(10, 96)
		a.Ecalli(5)
		a.LoadImm64(7, d.Put([]byte("peer")))
		a.LoadImm64(8, 4)
		a.LoadImm64(9, info)
		a.LoadImm64(10, 96)
		a.Ecalli(4)
	}
	if p.bless {
		assign := make([]byte, 4*nCores)
		for c := 0; c < nCores; c++ {
			copy(assign[4*c:], u32le(uint32(all[(c+1)%len(all)])))
		}
		always := append(u32le(uint32(all[0])), []byte{9, 0, 0, 0, 0, 0, 0, 0}...)
		a.LoadImm64(7, uint64(p.id))
		a.LoadImm64(8, d.Put(assign))
		a.LoadImm64(9, uint64(all[len(all)-1]))
		a.LoadImm64(10, uint64(all[0]))
		a.LoadImm64(11, d.Put(always))
		a.LoadImm64(12, 1)
		a.Ecalli(14)
	}
	if p.assign >= 0 {
		q := make([]byte, 32*types.AuthQueueSize)
		q[0], q[1] = byte(p.id), byte(p.assign+1)
		a.LoadImm64(7, uint64(p.assign))
		a.LoadImm64(8, d.Put(q))
		a.LoadImm64(9, uint64(all[0]))
		a.Ecalli(15)
	}
	if p.preimageOps > 0 {
		// solicit a preimage of the service's own, provide it in the same invocation and - in the third variant -
		// forget the still-empty request again before the round integrates the provided blobs
		blob := append([]byte("h2-preimage-of-"), u32le(uint32(p.id))...)
		hp := d.Put(func() []byte { h := h256(blob); return h[:] }())
		a.LoadImm64(7, hp)
		a.LoadImm64(8, uint64(len(blob)))
		a.Ecalli(23) // solicit
		if p.preimageOps >= 2 {
			a.LoadImm64(7, ^uint64(0)) // self
			a.LoadImm64(8, d.Put(blob))
			a.LoadImm64(9, uint64(len(blob)))
			a.Ecalli(26) // provide
		}
		if p.preimageOps >= 3 {
			a.LoadImm64(7, hp)
			a.LoadImm64(8, uint64(len(blob)))
			a.Ecalli(24) // forget
		}
	}
	for k := 0; k < p.creates; k++ {
		ch := h256(append(u32le(uint32(p.id)), byte(k), 0xC7))
		a.LoadImm64(7, d.Put(ch[:]))
		a.LoadImm64(8, uint64(30+k))
		a.LoadImm64(9, 3)
		a.LoadImm64(10, 4)
		a.LoadImm64(11, 0)
		a.LoadImm64(12, 0)
		a.Ecalli(18) // new
	}
	for _, z := range p.ejects {
		a.LoadImm64(7, uint64(z))
		a.LoadImm64(8, d.Put(zombieLookup.Hash[:]))
		a.Ecalli(21)
	}
	for i, x := range p.xfers {
		memo := make([]byte, 128)
		copy(memo, u32le(uint32(p.id)))
		memo[4] = byte(i)
		a.LoadImm64(7, uint64(x.dest))
		a.LoadImm64(8, x.amt)
		a.LoadImm64(9, x.gas)
		a.LoadImm64(10, d.Put(memo))
		a.Ecalli(20)
	}
	if p.yield {
		if p.yieldItems {
			// yield the first 32 octets of what this invocation was given: a service accumulated in two rounds of
			// one block (work items first, incoming transfers later) then has two different outputs in the log
			a.LoadImm64(7, buf)
		} else {
			y := h256(u32le(uint32(p.id)))
			a.LoadImm64(7, d.Put(y[:]))
		}
		a.Ecalli(25)
	}
	a.LoadImm64(7, buf)
	a.LoadImm64(8, 0)
	a.Halt()
	return pvmasm.Standard(a.Blob(), d.Bytes, 4096)
}

func genScenario(t *sim.Tape) *scenario {
	sc := &scenario{tau: types.TimeSlot(500 + t.Choose(20, "tau")), always: types.AlwaysAccumulateMap{}, maxIn: map[types.ServiceID]int{}}
	copy(sc.eta[0][:], t.Bytes(4, "eta"))
	sc.viaIntegration = t.Bool("via_integration_step")
	n := t.Range(3, 8, "nsvc")
	var ids []types.ServiceID
	// identifier magnitudes vary (small, 16-bit "surrogate" range, above 0x10FFFF, above 2^31): code that
	// derives keys or orderings from the identifier must not depend on its size
	bigIDs := t.Prob(2, 3, "big_ids")
	spreadIDs := bigIDs && t.Prob(1, 4, "ids_spread_around_the_circle") // every service of the round a third of 2^32 from the next
	for i := 0; i < n; i++ {
		id := types.ServiceID(200001 + i*7)
		if bigIDs {
			cls := t.Choose(5, "id_class")
			if spreadIDs {
				cls = 4
			}
			switch cls {
			case 4: // a third of the 32-bit circle apart: no half of the identifier space holds three neighbours
				id = types.ServiceID(0x0CE7F0A8 + uint32(i)*0x55555555)
			case 1:
				id = types.ServiceID(0xD800 + i*3)
			case 2:
				id = types.ServiceID(0x00200001 + i*0x1003)
			case 3:
				id = types.ServiceID(0x9C000004 + uint32(i)*0x01000001)
			}
		}
		ids = append(ids, id)
	}
	pick := func(label string) types.ServiceID { return ids[t.Choose(n, label)] }
	sc.manager, sc.desig, sc.registr = pick("manager"), pick("designate"), pick("registrar")
	for c := 0; c < types.CoresCount; c++ {
		sc.assigner = append(sc.assigner, pick("assigner"))
	}
	heavy := t.Prob(2, 3, "heavy") // arm in which one receiver gets more than a dozen transfers from several senders
	target := pick("target")
	// ejectable accounts: transfers sent to them in the round in which they are ejected are dropped
	sc.zombies = map[types.ServiceID]types.ServiceID{}
	var zombieIDs []types.ServiceID
	if t.Prob(1, 2, "zombies") {
		for z := 0; z < 1+t.Choose(2, "nzombies"); z++ {
			zid := types.ServiceID(300001 + z*5)
			sc.zombies[zid] = pick("ejector")
			zombieIDs = append(zombieIDs, zid)
		}
	}
	for i, id := range ids {
		p := &svcPlan{id: id, assign: -1}
		k := t.Choose(6, "nx")
		if heavy && t.Prob(2, 3, "heavy_sender") {
			k = 5 + t.Choose(16, "nx_heavy")
		}
		for j := 0; j < k; j++ {
			dest := pick("dest")
			if heavy && t.Prob(3, 4, "to_target") {
				dest = target
			}
			if dest == id {
				dest = ids[(i+1)%n]
			}
			if len(zombieIDs) > 0 && t.Prob(1, 4, "to_zombie") {
				dest = zombieIDs[t.Choose(len(zombieIDs), "which_zombie")]
			}
			p.xfers = append(p.xfers, xfer{dest: dest, amt: uint64(1 + t.Choose(50, "amt")), gas: uint64(150 + t.Choose(4, "tgas")*100)})
		}
		for _, zid := range zombieIDs {
			if sc.zombies[zid] == id && t.Prob(3, 4, "does_eject") {
				p.ejects = append(p.ejects, zid)
			}
		}
		p.yield = t.Bool("yield")
		p.yieldItems = t.Bool("yield_from_items")
		if t.Prob(1, 3, "preimage_ops") {
			p.preimageOps = 1 + t.Choose(3, "preimage_ops_kind")
		}
		if t.Prob(1, 3, "creates_services") {
			p.creates = 1 + t.Choose(2, "ncreates")
		}
		if t.Bool("peek") {
			p.peek = ids[(i+1+t.Choose(n-1, "peek_who"))%n]
		}
		if id == sc.manager && t.Prob(1, 3, "rebless") {
			p.bless = true
		}
		for c, as := range sc.assigner {
			if as == id && t.Prob(1, 3, "reassign") {
				p.assign = c
			}
		}
		sc.svcs = append(sc.svcs, p)
	}
	for _, p := range sc.svcs {
		p.blob = buildProgram(p, types.CoresCount, ids)
		p.meta = encodeMetaCode(p.blob)
		p.codeH = h256(p.meta)
		for _, x := range p.xfers {
			sc.maxIn[x.dest]++
		}
	}
	if t.Prob(1, 3, "always") {
		sc.always[pick("always_svc")] = types.Gas(5000 + t.Choose(3, "always_gas")*20000)
	}
	nRep := t.Range(1, 6, "nreports")
	for r := 0; r < nRep; r++ {
		var wr types.WorkReport
		wr.PackageSpec.Hash = types.WorkPackageHash(h256([]byte{byte(r), 1}))
		wr.AuthOutput = types.ByteSequence{byte(r)}
		wr.CoreIndex = types.CoreIndex(r % types.CoresCount)
		nRes := t.Range(1, 3, "nresults")
		for k := 0; k < nRes; k++ {
			s := sc.svcs[t.Choose(n, "res_svc")]
			wr.Results = append(wr.Results, types.WorkResult{ServiceID: s.id, CodeHash: s.codeH, PayloadHash: h256([]byte{byte(r), byte(k)}),
				AccumulateGas: types.Gas(60000), Result: types.WorkExecResult{Type: types.WorkExecResultOk, Data: []byte{byte(k)}}})
		}
		sc.reports = append(sc.reports, wr)
	}
	maxIn := 0
	for _, v := range sc.maxIn {
		if v > maxIn {
			maxIn = v
		}
	}
	sc.desc = fmt.Sprintf("services=%d reports=%d max_transfers_to_one_receiver=%d always=%d heavy=%v ejectable=%d", n, nRep, maxIn, len(sc.always), heavy, len(sc.zombies))
	return sc
}

func (sc *scenario) mkInput() accumulation.OuterAccumulationInput {
	ps := types.PartialStateSet{
		ServiceAccounts: types.ServiceAccountState{},
		ValidatorKeys:   make(types.ValidatorsData, types.ValidatorsCount),
		Authorizers:     make(types.AuthQueues, types.CoresCount),
		Bless:           sc.manager, Designate: sc.desig, CreateAcct: sc.registr,
		Assign:      append(types.ServiceIDList(nil), sc.assigner...),
		AlwaysAccum: types.AlwaysAccumulateMap{},
	}
	for k, v := range sc.always {
		ps.AlwaysAccum[k] = v
	}
	for c := range ps.Authorizers {
		ps.Authorizers[c] = make(types.AuthQueue, types.AuthQueueSize)
	}
	for _, p := range sc.svcs {
		ac := types.ServiceAccount{PreimageLookup: types.PreimagesMapEntry{p.codeH: append(types.ByteSequence(nil), p.meta...)},
			LookupDict:  types.LookupMetaMapEntry{types.LookupMetaMapkey{Hash: p.codeH, Length: types.U32(len(p.meta))}: types.TimeSlotSet{1}},
			StorageDict: types.Storage{}}
		ac.ServiceInfo = types.ServiceInfo{CodeHash: p.codeH, Balance: 1 << 40, MinItemGas: 1, MinMemoGas: 0, Items: 2, Bytes: types.U64(81 + len(p.meta))}
		ps.ServiceAccounts[p.id] = ac
	}
	for zid, ejector := range sc.zombies {
		// code hash = E_32(ejector), exactly one lookup entry (2 items) that was forgotten long ago
		ac := types.ServiceAccount{PreimageLookup: types.PreimagesMapEntry{}, StorageDict: types.Storage{},
			LookupDict: types.LookupMetaMapEntry{zombieLookup: types.TimeSlotSet{3, 7}}}
		ac.ServiceInfo = types.ServiceInfo{Balance: 777, MinItemGas: 1, MinMemoGas: 0, Items: 2, Bytes: types.U64(81 + zombieLookup.Length)}
		copy(ac.ServiceInfo.CodeHash[:], u32le(uint32(ejector)))
		ps.ServiceAccounts[zid] = ac
	}
	reports := make([]types.WorkReport, len(sc.reports))
	copy(reports, sc.reports)
	f := types.AlwaysAccumulateMap{}
	for k, v := range sc.always {
		f[k] = v
	}
	return accumulation.OuterAccumulationInput{GasLimit: 10_000_000, DeferredTransfers: []types.DeferredTransfer{}, WorkReports: reports, InitPartialStateSet: ps, ServicesWithFreeAccumulation: f}
}

// ---------------------------------------------------------------------------
// canonical dump
// ---------------------------------------------------------------------------

func canonAccount(a types.ServiceAccount) string {
	var b strings.Builder
	i := a.ServiceInfo
	fmt.Fprintf(&b, "info{ch=%x bal=%d o=%d i=%d f=%d}", i.CodeHash[:4], i.Balance, i.Bytes, i.Items, i.DepositOffset)
	sk := make([]string, 0, len(a.StorageDict))
	for k := range a.StorageDict {
		sk = append(sk, k)
	}
	sort.Strings(sk)
	for _, k := range sk {
		v := a.StorageDict[k]
		hv := h256(v)
		fmt.Fprintf(&b, " s[%q]=(%d bytes, %x)", k, len(v), hv[:6])
	}
	lk := make([]string, 0, len(a.LookupDict))
	for k, v := range a.LookupDict {
		lk = append(lk, fmt.Sprintf("%x/%d=%v", k.Hash[:4], k.Length, []types.TimeSlot(v)))
	}
	sort.Strings(lk)
	fmt.Fprintf(&b, " l%v p%d", lk, len(a.PreimageLookup))
	return b.String()
}

func canonPartial(ps types.PartialStateSet) []string {
	var out []string
	ids := make([]int, 0, len(ps.ServiceAccounts))
	for id := range ps.ServiceAccounts {
		ids = append(ids, int(id))
	}
	sort.Ints(ids)
	for _, id := range ids {
		out = append(out, fmt.Sprintf("acct %d: %s", id, canonAccount(ps.ServiceAccounts[types.ServiceID(id)])))
	}
	aa := make([]string, 0, len(ps.AlwaysAccum))
	for k, v := range ps.AlwaysAccum {
		aa = append(aa, fmt.Sprintf("%d:%d", k, v))
	}
	sort.Strings(aa)
	vh := h256([]byte(fmt.Sprintf("%v", ps.ValidatorKeys)))
	ah := h256([]byte(fmt.Sprintf("%v", ps.Authorizers)))
	out = append(out, fmt.Sprintf("priv m=%d a=%v v=%d r=%d z=%v", ps.Bless, ps.Assign, ps.Designate, ps.CreateAcct, aa), fmt.Sprintf("iota=%x phi=%x", vh[:6], ah[:6]))
	return out
}

func canonOutput(o accumulation.OuterAccumulationOutput, cs *blockchain.ChainState) []string {
	out := []string{fmt.Sprintf("n=%d", o.NumberOfWorkResultsAccumulated)}
	out = append(out, canonPartial(o.PartialStateSet)...)
	var b []string
	for k := range o.AccumulatedServiceOutput {
		b = append(b, fmt.Sprintf("%d:%x", k.ServiceID, k.Hash[:6]))
	}
	sort.Strings(b)
	out = append(out, fmt.Sprintf("outputs %v", b))
	gas := map[types.ServiceID][2]uint64{}
	for _, u := range o.ServiceGasUsedList {
		g := gas[u.ServiceID]
		g[0] += uint64(u.Gas)
		g[1]++
		gas[u.ServiceID] = g
	}
	var gs []string
	for k, v := range gas {
		gs = append(gs, fmt.Sprintf("%d:gas=%d,invocations=%d", k, v[0], v[1]))
	}
	sort.Strings(gs)
	out = append(out, fmt.Sprintf("gas %v", gs))
	// what ended up in the node's posterior state
	post := cs.GetPosteriorStates()
	chi := post.GetChi()
	pp := types.PartialStateSet{ServiceAccounts: post.GetDelta(), ValidatorKeys: post.GetIota(), Authorizers: post.GetVarphi(), Bless: chi.Bless, Assign: chi.Assign, Designate: chi.Designate, CreateAcct: chi.CreateAcct, AlwaysAccum: chi.AlwaysAccum}
	for _, l := range canonPartial(pp) {
		out = append(out, "posterior "+l)
	}
	raw := cs.GetPostStateUnmatchedKeyVals()
	rs := make([]string, 0, len(raw))
	for _, kv := range raw {
		rs = append(rs, fmt.Sprintf("%x=%x", kv.Key[:], []byte(kv.Value)))
	}
	sort.Strings(rs)
	out = append(out, fmt.Sprintf("raw %v", rs))
	return out
}

// canonIntegration dumps what the integration step left in the node's stores. The accumulation-output log is a
// SEQUENCE in the state: it is dumped in the order the node produced it.
func canonIntegration(cs *blockchain.ChainState) []string {
	post, mid := cs.GetPosteriorStates(), cs.GetIntermediateStates()
	var out []string
	var th []string
	for _, x := range post.GetLastAccOut() {
		th = append(th, fmt.Sprintf("%d:%x", x.ServiceID, x.Hash[:6]))
	}
	out = append(out, fmt.Sprintf("outputs-log %v", th))
	st := mid.GetAccumulationStatistics()
	var ss []string
	for k, v := range st {
		ss = append(ss, fmt.Sprintf("%d:gas=%d,items=%d", k, v.Gas, v.NumAccumulatedReports))
	}
	sort.Strings(ss)
	out = append(out, fmt.Sprintf("gas %v", ss))
	chi := post.GetChi()
	pp := types.PartialStateSet{ServiceAccounts: mid.GetDeltaDoubleDagger(), ValidatorKeys: post.GetIota(), Authorizers: post.GetVarphi(), Bless: chi.Bless, Assign: chi.Assign, Designate: chi.Designate, CreateAcct: chi.CreateAcct, AlwaysAccum: chi.AlwaysAccum}
	for _, l := range canonPartial(pp) {
		out = append(out, "posterior "+l)
	}
	for i, item := range post.GetXi() {
		if len(item) > 0 {
			var hs []string
			for _, h := range item {
				hs = append(hs, fmt.Sprintf("%x", h[:4]))
			}
			out = append(out, fmt.Sprintf("accumulated-history[%d] %v", i, hs))
		}
	}
	for i, item := range post.GetVartheta() {
		if len(item) > 0 {
			out = append(out, fmt.Sprintf("ready-queue[%d] %d records", i, len(item)))
		}
	}
	raw := cs.GetPostStateUnmatchedKeyVals()
	rs := make([]string, 0, len(raw))
	for _, kv := range raw {
		rs = append(rs, fmt.Sprintf("%x=%x", kv.Key[:], []byte(kv.Value)))
	}
	sort.Strings(rs)
	out = append(out, fmt.Sprintf("raw %v", rs))
	return out
}

// ---------------------------------------------------------------------------
// one arm = one execution under a given schedule / worker count / map order
// ---------------------------------------------------------------------------

type arm struct {
	workers  int
	mapMode  int // 0 sorted, 1 reversed, 2 tape permutation
	schedule int // 0 first runnable, 1 last runnable, 2 uniform from tape
}

func (a arm) String() string {
	return fmt.Sprintf("{workers=%d map=%s sched=%s}", a.workers, []string{"sorted", "reversed", "random"}[a.mapMode], []string{"first", "last", "random"}[a.schedule])
}

type armResult struct {
	accounts  types.ServiceAccountState // accounts after the round (for the round-level conservation / footprint oracles)
	lines     []string
	err       string
	steps     int
	lockWaits int64
	stuck     bool
}

func runArm(tt *testing.T, r *sim.Run, sc *scenario, a arm) (res armResult) {
	t := r.T
	defer func() {
		if v := recover(); v != nil {
			msg := fmt.Sprint(v)
			if strings.Contains(msg, "deadlock") {
				res.stuck = true
				return
			}
			panic(v)
		}
	}()
	synctest.Test(tt, func(*testing.T) {
		blockchain.ResetInstance()
		cs := blockchain.GetInstance()
		cs.GetPosteriorStates().SetTau(sc.tau)
		cs.GetPosteriorStates().SetEta(sc.eta)
		cs.SetPostStateUnmatchedKeyVals(types.StateKeyVals{})
		oldWorkers := types.MaxWorkers
		types.MaxWorkers = a.workers
		defer func() { types.MaxWorkers = oldWorkers }()
		s := simrt.New(t.Choose)
		switch a.mapMode {
		case 1:
			s.MapOrder = func(n int, site string) []int {
				p := make([]int, n)
				for i := range p {
					p[i] = n - 1 - i
				}
				return p
			}
		case 2:
			s.MapOrder = func(n int, site string) []int { return t.Perm(n, "maporder") }
		}
		s.Attach()
		var out accumulation.OuterAccumulationOutput
		var err error
		done := false
		// half of the arms of a scenario go through the whole integration step (GP 12.20-12.33: outer accumulation
		// from the prior state, accumulation-output log, statistics, accounts after accumulation, accumulated history,
		// ready queue); the others call the outer accumulation function directly. Which one is fixed per scenario.
		in := sc.mkInput()
		if sc.viaIntegration {
			pri := cs.GetPriorStates()
			ps := in.InitPartialStateSet
			pri.SetDelta(ps.ServiceAccounts)
			pri.SetIota(ps.ValidatorKeys)
			pri.SetVarphi(ps.Authorizers)
			pri.SetChi(types.Privileges{Bless: ps.Bless, Assign: ps.Assign, Designate: ps.Designate, CreateAcct: ps.CreateAcct, AlwaysAccum: ps.AlwaysAccum})
			xi := make(types.AccumulatedQueue, types.EpochLength)
			th := make(types.ReadyQueue, types.EpochLength)
			for i := range xi {
				xi[i], th[i] = types.AccumulatedQueueItem{}, types.ReadyQueueItem{}
			}
			pri.SetXi(xi)
			pri.SetVartheta(th)
			pri.SetTau(sc.tau - 1)
			th2 := make(types.ReadyQueue, types.EpochLength)
			for i := range th2 {
				th2[i] = types.ReadyQueueItem{}
			}
			cs.GetPosteriorStates().SetVartheta(th2)
			var blk types.Block
			blk.Header.Slot = sc.tau
			cs.AddBlock(blk)
			cs.GetIntermediateStates().SetAccumulatableWorkReports(in.WorkReports)
			cs.GetIntermediateStates().SetQueuedWorkReports(types.ReadyQueueItem{})
		}
		s.Spawn("main", "main", nil, func() {
			if sc.viaIntegration {
				err = accumulation.DeferredTransfers()
			} else {
				out, err = accumulation.OuterAccumulation(in)
			}
			done = true
		})
		for res.steps = 0; res.steps < 200000 && !done; res.steps++ {
			s.Quiesce()
			run := s.Runnable()
			if len(run) == 0 {
				if done {
					break
				}
				// nothing runnable and the round is not finished: let simulated time pass once, then give up
				if !s.Idle(time.Second) {
					res.stuck = true
					break
				}
				continue
			}
			var g *simrt.G
			switch a.schedule {
			case 0:
				g = run[0]
			case 1:
				g = run[len(run)-1]
			default:
				g = run[t.Choose(len(run), "who")]
			}
			s.Release(g)
		}
		s.Quiesce()
		res.lockWaits = s.LockWaits
		if s.Live() == 0 {
			s.Detach()
		} else {
			res.stuck = true
		}
		if err != nil {
			res.err = err.Error()
		}
		if done {
			if sc.viaIntegration {
				res.lines = canonIntegration(cs)
				res.accounts = cs.GetIntermediateStates().GetDeltaDoubleDagger()
			} else {
				res.lines = canonOutput(out, cs)
				res.accounts = out.PartialStateSet.ServiceAccounts
			}
		}
	})
	return res
}

func runOne(tt *testing.T, r *sim.Run) {
	t := r.T
	sc := genScenario(t)
	base := runArm(tt, r, sc, arm{workers: 1, mapMode: 0, schedule: 0})
	if base.stuck || base.lines == nil {
		r.Count("infra:baseline_arm_stuck", 1)
		r.Discard("baseline arm did not finish")
		return
	}
	k := 5
	if r.Tier == "thorough" {
		k = 12
	}
	if r.Prop != "" && r.Prop != "C22" {
		k = 1 // this run serves another property through the round-level oracles below
	}
	roundOracles(r, sc, base, "baseline {workers=1 map=sorted sched=first}")
	if r.Violated() {
		return
	}
	maxIn := 0
	for _, v := range sc.maxIn {
		if v > maxIn {
			maxIn = v
		}
	}
	if maxIn >= 13 {
		r.Count("probe:receiver_with_more_than_a_dozen_transfers", 1)
	}
	for zid := range sc.zombies {
		gone := true
		for _, l := range base.lines {
			if strings.HasPrefix(l, fmt.Sprintf("acct %d:", zid)) {
				gone = false
			}
		}
		if gone {
			r.Count("probe:account_ejected_in_round", 1)
			for _, p := range sc.svcs {
				for _, x := range p.xfers {
					if x.dest == zid {
						r.Count("probe:transfer_to_account_ejected_in_same_round", 1)
					}
				}
			}
		}
	}
	workersOpt := []int{1, 2, 3, 16}
	for i := 0; i < k && !r.Violated(); i++ {
		a := arm{workers: workersOpt[t.Choose(4, "workers")], mapMode: t.Choose(3, "mapmode"), schedule: t.Choose(3, "schedmode")}
		if i == 0 {
			a = arm{workers: 16, mapMode: 1, schedule: 1} // the opposite corner of the baseline
		}
		res := runArm(tt, r, sc, a)
		r.Count(fmt.Sprintf("arm:workers=%d", a.workers), 1)
		r.Count("fault:schedule_decisions", int64(res.steps))
		if res.lockWaits > 0 {
			r.Count("probe:lock_contended", res.lockWaits)
		}
		if res.stuck || res.lines == nil {
			r.Violate(prop, "stuck", "round-does-not-finish-under-schedule", "arm %v: the accumulation round did not finish (goroutines blocked) although the baseline arm did; scenario %s", a, sc.desc)
			return
		}
		roundOracles(r, sc, res, a.String())
		if r.Violated() {
			return
		}
		if res.err != base.err {
			r.Violate(prop, "differs", "error-differs-between-schedules", "arm %v returned error %q, baseline %q; scenario %s", a, res.err, base.err, sc.desc)
			return
		}
		if strings.Join(res.lines, "\n") != strings.Join(base.lines, "\n") {
			diff := ""
			what := "other"
			for j := range base.lines {
				if j >= len(res.lines) || res.lines[j] != base.lines[j] {
					got := "<missing>"
					if j < len(res.lines) {
						got = res.lines[j]
					}
					diff = fmt.Sprintf("\n baseline: %s\n this arm: %s", base.lines[j], got)
					switch {
					case strings.Contains(base.lines[j], "acct "):
						what = "service-accounts"
					case strings.Contains(base.lines[j], "priv "):
						what = "privileges"
					case strings.HasPrefix(base.lines[j], "gas "):
						what = "gas-statistics"
					case strings.HasPrefix(base.lines[j], "outputs "), strings.HasPrefix(base.lines[j], "outputs-log "):
						what = "outputs"
					case strings.Contains(base.lines[j], "iota="):
						what = "queues-or-validator-keys"
					}
					break
				}
			}
			if os.Getenv("H2_DUMP") != "" { // development aid
				for _, l := range base.lines {
					r.Logf("BASE %s", l)
				}
				for _, l := range res.lines {
					r.Logf("ARM  %s", l)
				}
			}
			r.Violate(prop, "differs", "posterior-differs-"+what, "same inputs, different posterior state: arm %v vs baseline {workers=1 map=sorted sched=first}%s\n scenario %s", a, diff, sc.desc)
			return
		}
	}
	if len(sc.svcs) >= 3 && maxIn >= 2 {
		r.Nontrivial()
	}
	r.ShapeStr(strings.Join(base.lines, "|"))
	r.Summary("%s; baseline: %d schedule decisions; %s", sc.desc, base.steps, firstLines(base.lines, 3))
}

// roundOracles: what holds for one accumulation invocation (C08 conservation, C09 footprint accounting) must also
// hold for what a whole round - parallel invocations, the merge of their results, delivery of deferred transfers in
// later rounds, integration of provided preimages - leaves in the accounts.
func roundOracles(r *sim.Run, sc *scenario, res armResult, armName string) {
	if res.accounts == nil || res.err != "" {
		return
	}
	if r.Wants("C08") {
		before, after := new(big.Int), new(big.Int)
		for _, a := range sc.mkInput().InitPartialStateSet.ServiceAccounts {
			before.Add(before, new(big.Int).SetUint64(uint64(a.ServiceInfo.Balance)))
		}
		for _, a := range res.accounts {
			after.Add(after, new(big.Int).SetUint64(uint64(a.ServiceInfo.Balance)))
		}
		if after.Cmp(before) > 0 {
			r.Violate("C08", "sum-increased", "round-sum-of-balances-increased", "arm %s: after the accumulation round (no deferred transfer is left undelivered) the balances sum to %s, before it to %s; scenario %s", armName, after, before, sc.desc)
			return
		}
		r.Count("probe:round_conservation_checked", 1)
	}
	if r.Wants("C09") {
		var ids []types.ServiceID
		for id := range res.accounts {
			ids = append(ids, id)
		}
		sort.Slice(ids, func(i, j int) bool { return ids[i] < ids[j] })
		for _, id := range ids {
			a := res.accounts[id]
			items := uint64(2*len(a.LookupDict) + len(a.StorageDict))
			octets := uint64(0)
			for k := range a.LookupDict {
				octets += 81 + uint64(k.Length)
			}
			for k, v := range a.StorageDict {
				octets += 34 + uint64(len(k)) + uint64(len(v))
			}
			if uint64(a.ServiceInfo.Items) != items || uint64(a.ServiceInfo.Bytes) != octets {
				r.Violate("C09", "footprint", "round-footprint-differs-from-entries", "arm %s: after the accumulation round account %d records items=%d octets=%d, its %d lookup and %d storage entries give items=%d octets=%d; scenario %s", armName, id, a.ServiceInfo.Items, a.ServiceInfo.Bytes, len(a.LookupDict), len(a.StorageDict), items, octets, sc.desc)
				return
			}
		}
		r.Count("probe:round_footprint_checked", 1)
	}
}

func firstLines(l []string, n int) string {
	if len(l) > n {
		l = l[:n]
	}
	var b bytes.Buffer
	for _, s := range l {
		if len(s) > 160 {
			s = s[:160] + "…"
		}
		b.WriteString(s + " / ")
	}
	return b.String()
}

func TestVerifH2(t *testing.T) {
	os.Setenv("JAM_FUZZ", "1")
	ok, msg := sim.WorkerMain(func(r *sim.Run) { runOne(t, r) })
	if !ok {
		t.Fatal(msg)
	}
	if msg != "" {
		t.Log(msg)
	}
}
