// Package pvmasm is a tiny assembler for the handful of PVM instructions the
// accumulation harnesses need. It emits a *standard program* blob
// (E3(|o|) E3(|w|) E2(z) E3(s) o w E4(|c|) c) whose code c is the deblob format
// (E(|j|) E1(z) E(|c|) j c k). Programs start with five one-byte `fallthrough`s
// so that pc 5 – the accumulate entry point – begins a basic block.
//
// The harness self-checks this encoder against the repository's decoder at
// start-up (a failure is an infrastructure error, never a violation).
package pvmasm

import "encoding/binary"

const (
	OpTrap        = 0
	OpFallthrough = 1
	OpEcalli      = 10
	OpLoadImm64   = 20
	OpJump        = 40
	OpJumpInd     = 50
	OpMoveReg     = 100
	OpBranchEqImm = 81
	OpAddImm64    = 149
	OpStoreImmU8  = 30
	OpLoadU8      = 52

	// RWBase is where the read-write data segment starts when the read-only segment is empty.
	RWBase = 0x20000
)

// Asm accumulates code bytes and the instruction-start bitmask.
type Asm struct {
	Code  []byte
	Start []bool
	// Instr counts emitted instructions (each costs one gas unit when executed).
	Instr int
}

// New returns an assembler whose first five instructions are `fallthrough`.
func New() *Asm {
	a := &Asm{}
	for i := 0; i < 5; i++ {
		a.op(OpFallthrough)
	}
	a.Instr = 0 // entry is at pc 5: the leading fallthroughs are never executed
	return a
}

func (a *Asm) op(b byte, rest ...byte) {
	a.Code = append(a.Code, b)
	a.Start = append(a.Start, true)
	for _, r := range rest {
		a.Code = append(a.Code, r)
		a.Start = append(a.Start, false)
	}
	a.Instr++
}

// PC is the address of the next instruction.
func (a *Asm) PC() int { return len(a.Code) }

// LoadImm64 emits load_imm_64 reg, v (10 bytes).
func (a *Asm) LoadImm64(reg int, v uint64) {
	var imm [8]byte
	binary.LittleEndian.PutUint64(imm[:], v)
	a.op(OpLoadImm64, append([]byte{byte(reg)}, imm[:]...)...)
}

// Ecalli emits ecalli id with the shortest little-endian immediate that sign-extends to id.
func (a *Asm) Ecalli(id uint32) {
	switch {
	case id < 0x80:
		a.op(OpEcalli, byte(id))
	case id < 0x8000:
		a.op(OpEcalli, byte(id), byte(id>>8))
	case id < 0x800000:
		a.op(OpEcalli, byte(id), byte(id>>8), byte(id>>16))
	default:
		a.op(OpEcalli, byte(id), byte(id>>8), byte(id>>16), byte(id>>24))
	}
}

// EcalliRaw emits ecalli with exactly the given immediate octets (the immediate is sign-extended: a single octet of
// 0x80 or more denotes an identifier near 2^64).
func (a *Asm) EcalliRaw(imm ...byte) { a.op(OpEcalli, imm...) }

// MoveReg emits move_reg dst, src.
func (a *Asm) MoveReg(dst, src int) { a.op(OpMoveReg, byte(src<<4|dst)) }

// StoreImmU8 emits store_imm_u8 [addr], v (four-octet address immediate, one-octet value).
func (a *Asm) StoreImmU8(addr uint32, v byte) {
	a.op(OpStoreImmU8, 4, byte(addr), byte(addr>>8), byte(addr>>16), byte(addr>>24), v)
}

// LoadU8 emits load_u8 reg, [addr] (four-octet address immediate).
func (a *Asm) LoadU8(reg int, addr uint32) {
	a.op(OpLoadU8, byte(reg), byte(addr), byte(addr>>8), byte(addr>>16), byte(addr>>24))
}

// AddImm64 emits add_imm_64 dst, src, imm8 (dst = src + imm8; one-octet immediate below 0x80).
func (a *Asm) AddImm64(dst, src int, imm8 byte) { a.op(OpAddImm64, byte(src<<4|dst), imm8) }

// Trap emits trap.
func (a *Asm) Trap() { a.op(OpTrap) }

// Fallthrough emits fallthrough.
func (a *Asm) Fallthrough() { a.op(OpFallthrough) }

// Halt emits jump_ind r0, 0: with the initial r0 = 2^32-2^16 this is the halt address.
func (a *Asm) Halt() { a.op(OpJumpInd, 0) }

// LoopForever emits `fallthrough; L: fallthrough; jump L`: two instructions (two gas units) per
// iteration. (A jump to its own address is not used: the block engine tells a taken branch from a
// fall-through by comparing program counters.)
func (a *Asm) LoopForever() {
	a.Fallthrough()
	a.Fallthrough()    // L: starts a basic block (follows a terminator)
	a.op(OpJump, 0xFF) // offset -1 relative to the jump: back to L
}

// BranchEqImmSkip emits branch_eq_imm reg, imm, +off where off is relative to this instruction
// and must land on a basic-block start; the caller patches by emitting a Fallthrough at the target.
// Encoding: opcode, (lx<<4 | reg), imm (lx bytes), offset (remaining bytes).
func (a *Asm) BranchEqImm8(reg int, imm8 byte, off int32) {
	var o [4]byte
	binary.LittleEndian.PutUint32(o[:], uint32(off))
	a.op(OpBranchEqImm, byte(1<<4|reg), imm8, o[0], o[1], o[2], o[3])
}

// natural is the Gray Paper variable-length natural encoding (values < 2^56 only, enough here).
func natural(v uint64) []byte {
	if v < 0x80 {
		return []byte{byte(v)}
	}
	for l := 1; l < 8; l++ {
		if v < 1<<(7*uint(l+1)) {
			prefix := byte(0xFF<<(8-uint(l))) | byte(v>>(8*uint(l)))
			out := []byte{prefix}
			for i := 0; i < l; i++ {
				out = append(out, byte(v>>(8*uint(i))))
			}
			return out
		}
	}
	out := []byte{0xFF}
	var b [8]byte
	binary.LittleEndian.PutUint64(b[:], v)
	return append(out, b[:]...)
}

// Blob returns the deblob-format code: no jump table.
func (a *Asm) Blob() []byte {
	code := append([]byte(nil), a.Code...)
	start := append([]bool(nil), a.Start...)
	// terminate with a trap so that the last real instruction has a well-defined skip length
	code = append(code, OpTrap)
	start = append(start, true)
	mask := make([]byte, (len(code)+7)/8)
	for i, s := range start {
		if s {
			mask[i/8] |= 1 << (uint(i) % 8)
		}
	}
	out := natural(0)    // |j|
	out = append(out, 0) // z
	out = append(out, natural(uint64(len(code)))...)
	out = append(out, code...)
	return append(out, mask...)
}

func le(v uint64, n int) []byte {
	b := make([]byte, n)
	for i := 0; i < n; i++ {
		b[i] = byte(v >> (8 * uint(i)))
	}
	return b
}

// Standard wraps code into a standard program blob with read-write data rw, no read-only
// data, no extra heap pages and a stack of stackBytes.
func Standard(codeBlob, rw []byte, stackBytes int) []byte {
	out := le(0, 3)
	out = append(out, le(uint64(len(rw)), 3)...)
	out = append(out, le(0, 2)...)
	out = append(out, le(uint64(stackBytes), 3)...)
	out = append(out, rw...)
	out = append(out, le(uint64(len(codeBlob)), 4)...)
	return append(out, codeBlob...)
}

// Data lays out buffers in the read-write segment.
type Data struct {
	Bytes []byte
}

// Put appends b (8-byte aligned) and returns its guest address.
func (d *Data) Put(b []byte) uint64 {
	for len(d.Bytes)%8 != 0 {
		d.Bytes = append(d.Bytes, 0)
	}
	addr := uint64(RWBase + len(d.Bytes))
	d.Bytes = append(d.Bytes, b...)
	return addr
}

// Reserve appends n zero bytes and returns their guest address.
func (d *Data) Reserve(n int) uint64 { return d.Put(make([]byte, n)) }
