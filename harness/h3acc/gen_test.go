//go:build verif

package h3acc_test

import (
	"encoding/binary"
	"fmt"
	"math"
	"math/big"

	"github.com/New-JAMneration/JAM-Protocol/internal/types"
	"github.com/New-JAMneration/JAM-Protocol/internal/utilities/merklization"
	"github.com/New-JAMneration/JAM-Protocol/internal/zzverif/pvmasm"
	"github.com/New-JAMneration/JAM-Protocol/internal/zzverif/sim"
	"golang.org/x/crypto/blake2b"
)

// service identifiers: set per run from one of several families (magnitudes and octet patterns differ; code that
// derives keys, cache keys or orderings from an identifier must not depend on its size)
var (
	selfID  = types.ServiceID(100001)
	peerID  = types.ServiceID(100002)
	childID = types.ServiceID(100003) // ejectable child of self in some runs
	richID  = types.ServiceID(100004)
)

var idFamilies = [][4]types.ServiceID{
	{100001, 100002, 100003, 100004},
	{0x00200001, 0x00201004, 0x00202007, 0x0020300A},
	{0x9C000004, 0x9D000005, 0x9E000006, 0x9F000007},
	{0xFFFFFFFE, 0xFFFFFFFD, 0xFFFFFFFC, 0xFFFFFFFB},
	{0x00FF00FF, 0xFF0000FF, 0x00FFFF00, 0x01FF01FF},
	{70255, 70000, 65536, 131071},
}

func pickIDs(t *sim.Tape) {
	f := idFamilies[t.Pick([]int{4, 1, 1, 1, 1, 1}, "id_family")]
	selfID, peerID, childID, richID = f[0], f[1], f[2], f[3]
}

const (
	noneReg = math.MaxUint64
	badPtr  = 0x100 // below 2^16: inaccessible
)

// host-call ids
const (
	hGas, hFetch, hLookup, hRead, hWrite, hInfo                    = 0, 1, 2, 3, 4, 5
	hBless, hAssign, hDesignate, hCheckpoint, hNew, hUpgrade       = 14, 15, 16, 17, 18, 19
	hTransfer, hEject, hQuery, hSolicit, hForget, hYield, hProvide = 20, 21, 22, 23, 24, 25, 26
	hUnknown                                                       = 77
)

var hostName = map[int]string{0: "gas", 1: "fetch", 2: "lookup", 3: "read", 4: "write", 5: "info", 14: "bless", 15: "assign", 16: "designate",
	17: "checkpoint", 18: "new", 19: "upgrade", 20: "transfer", 21: "eject", 22: "query", 23: "solicit", 24: "forget", 25: "yield", 26: "provide", 77: "unknown"}

// step is one host call of the generated program.
type step struct {
	op      int
	regs    map[int]uint64 // registers loaded before the ecalli (7..12)
	nInstr  int            // instructions of this group (loads + ecalli)
	visible bool           // observed by a wrapper (defined host call)
	note    string
}

type ending int

const (
	endHalt0     ending = iota // halt, zero-length output
	endHalt32                  // halt, 32-byte output (overrides the yield)
	endHaltOther               // halt, output of another length (yield stays)
	endTrap
	endLoop // burn gas until it runs out
	endFault // a load or store that faults in the MIDDLE of a basic block (address below 2^16: panic; unmapped page above: page fault), more instructions and a trap behind it
)

// scenario is everything a run needs; build() recreates fresh inputs from it
// (Psi_A mutates what it is given).
type scenario struct {
	steps     []step
	end       ending
	tailInstr int // instructions after the last host call up to and including the final one (halt/trap); loop: unbounded
	blob      []byte
	codeHash  types.OpaqueHash
	out32     [32]byte

	balances map[types.ServiceID]uint64
	mkState  func() (types.PartialStateSet, types.StateKeyVals)
	inputs   []types.OperandOrDeferredTransfer
	credit   uint64
	timeslot types.TimeSlot
	eta      types.Entropy
	hugeArm  bool
	rawArm   bool
	desc     []string
}

func h256(b []byte) types.OpaqueHash { return types.OpaqueHash(blake2b.Sum256(b)) }

func u32le(v uint32) []byte { b := make([]byte, 4); binary.LittleEndian.PutUint32(b, v); return b }

// threshold in exact integers (used by the generator only to aim amounts at the boundary)
func thr(items uint64, octets uint64, gratis uint64) uint64 {
	t := 100 + 10*items + octets
	if t < gratis {
		return 0
	}
	return t - gratis
}

type acctSpec struct {
	id       types.ServiceID
	storage  map[string][]byte
	lookups  map[types.LookupMetaMapkey]types.TimeSlotSet
	preimage map[types.OpaqueHash][]byte
	rawStore map[string][]byte                            // entries present only as raw key-values
	rawLook  map[types.LookupMetaMapkey]types.TimeSlotSet // entries present only as raw key-values
	info     types.ServiceInfo
}

func (a *acctSpec) derived() (items uint64, octets uint64) {
	for k, v := range a.storage {
		items++
		octets += 34 + uint64(len(k)) + uint64(len(v))
	}
	for k, v := range a.rawStore {
		items++
		octets += 34 + uint64(len(k)) + uint64(len(v))
	}
	for k := range a.lookups {
		items += 2
		octets += 81 + uint64(k.Length)
	}
	for k := range a.rawLook {
		items += 2
		octets += 81 + uint64(k.Length)
	}
	return
}

func encodeMetaCode(code []byte) []byte {
	mc := types.MetaCode{Metadata: types.ByteSequence("verif"), Code: types.ByteSequence(code)}
	enc := types.NewEncoder()
	b, err := enc.Encode(&mc)
	if err != nil {
		panic("encode MetaCode: " + err.Error())
	}
	return b
}

// genScenario draws a whole scenario from the tape.
func genScenario(t *sim.Tape, r *sim.Run, sweep bool) *scenario {
	pickIDs(t)
	sc := &scenario{timeslot: types.TimeSlot(1000 + t.Choose(50, "slot"))}
	copy(sc.eta[:], t.Bytes(4, "eta"))
	sc.hugeArm = !sweep && t.Prob(1, 8, "huge_arm")
	sc.rawArm = t.Prob(1, 3, "raw_arm")

	// ---- accounts -------------------------------------------------------
	keys := [][]byte{[]byte("k"), []byte("key2"), []byte("a-longer-storage-key-0123456789"), {}}
	vals := func() []byte {
		n := []int{1, 5, 31, 32, 33, 100, 400}[t.Choose(7, "vlen")]
		b := make([]byte, n)
		for i := range b {
			b[i] = byte(0x40 + i%23)
		}
		return b
	}
	pre := [][]byte{[]byte("preimage-A"), []byte("preimage-B-longer-blob-xxxxxxxxxxxxxxxx"), []byte("P3")}
	lookKey := func(i int) types.LookupMetaMapkey {
		return types.LookupMetaMapkey{Hash: h256(pre[i]), Length: types.U32(len(pre[i]))}
	}
	self := &acctSpec{id: selfID, storage: map[string][]byte{}, lookups: map[types.LookupMetaMapkey]types.TimeSlotSet{}, preimage: map[types.OpaqueHash][]byte{},
		rawStore: map[string][]byte{}, rawLook: map[types.LookupMetaMapkey]types.TimeSlotSet{}}
	for i := 0; i < 3; i++ {
		if t.Bool("has_storage") {
			if sc.rawArm && t.Bool("raw") {
				self.rawStore[string(keys[i])] = vals()
			} else {
				self.storage[string(keys[i])] = vals()
			}
		}
	}
	old := sc.timeslot - types.TimeSlot(types.UnreferencedPreimageTimeslots) - 5
	for i := 0; i < 3; i++ {
		var ts types.TimeSlotSet
		switch t.Choose(6, "lookstate") {
		case 0:
			continue
		case 1:
			ts = types.TimeSlotSet{}
		case 2:
			ts = types.TimeSlotSet{10}
			self.preimage[lookKey(i).Hash] = pre[i]
		case 3:
			ts = types.TimeSlotSet{10, old}
		case 4:
			ts = types.TimeSlotSet{10, sc.timeslot - 1} // recently forgotten
		case 5:
			ts = types.TimeSlotSet{10, old, 900}
			self.preimage[lookKey(i).Hash] = pre[i]
		}
		if sc.rawArm && t.Bool("rawlook") {
			self.rawLook[lookKey(i)] = ts
		} else {
			self.lookups[lookKey(i)] = ts
		}
	}
	peer := &acctSpec{id: peerID, storage: map[string][]byte{"k": []byte("peer-value")}, lookups: map[types.LookupMetaMapkey]types.TimeSlotSet{lookKey(0): {5}},
		preimage: map[types.OpaqueHash][]byte{lookKey(0).Hash: pre[0]}}
	peer.info.MinMemoGas = types.Gas(t.Choose(3, "peer_memo_gas") * 7)
	accts := []*acctSpec{self, peer}
	hasChild := t.Prob(1, 3, "child")
	if hasChild {
		// ejectable child: code hash = E32(self), exactly one lookup entry (2 items), forgotten long ago
		ch := &acctSpec{id: childID, lookups: map[types.LookupMetaMapkey]types.TimeSlotSet{}, preimage: map[types.OpaqueHash][]byte{}}
		copy(ch.info.CodeHash[:], u32le(uint32(selfID)))
		state := t.Choose(3, "childstate")
		lk := types.LookupMetaMapkey{Hash: h256([]byte("child-code")), Length: 40}
		switch state {
		case 0:
			ch.lookups[lk] = types.TimeSlotSet{3, old}
		case 1:
			ch.lookups[lk] = types.TimeSlotSet{3, sc.timeslot - 2} // too recent: HUH
		case 2:
			ch.lookups[lk] = types.TimeSlotSet{3}
		}
		ch.info.Balance = types.U64([]uint64{0, 500, 1 << 40, 1 << 62}[t.Choose(4, "childbal")])
		accts = append(accts, ch)
	}
	hasRich := t.Bool("rich")
	richGap := uint64(t.Choose(1000, "richbal"))
	if hasRich {
		accts = append(accts, &acctSpec{id: richID})
	}

	// program (generated below) is needed before the state can be finalised: code hash + preimage
	manager := selfID
	if t.Prob(1, 3, "not_manager") {
		manager = peerID
	}
	registrar := selfID
	if t.Bool("not_registrar") {
		registrar = peerID
	}
	designate := selfID
	if t.Bool("not_designate") {
		designate = peerID
	}

	// self balance relative to its threshold
	si, so := self.derived()
	gratis := uint64(0)
	if t.Prob(1, 4, "gratis") {
		gratis = uint64(t.Choose(300, "gratis_amt"))
	}
	recItems, recOctets := si, so
	if sc.hugeArm {
		switch t.Choose(3, "huge_kind") {
		case 0: // item count around 2^32/10: B_I*items does not fit 32 bits
			recItems = (1<<32)/10 - 3 + uint64(t.Choose(8, "hi"))
		case 1: // item count near 2^32
			// (room for the items a run can add: a recorded count that wraps around 2^32 is not a state the
			// property speaks about - the count itself is a 32-bit quantity)
			recItems = 1<<32 - 1 - 100 - uint64(t.Choose(40, "hi2"))
		case 2: // octets near 2^64
			recOctets = math.MaxUint64 - uint64(t.Choose(100000, "ho"))
		}
		// a gratis offset around the raw threshold keeps the true threshold small
		raw := new128(100).add(10 * recItems).add(recOctets)
		if raw.hi == 0 && t.Bool("gratis_near_raw") {
			gratis = raw.lo - uint64(t.Choose(2000, "g_off"))
		} else if t.Bool("gratis_max") {
			gratis = math.MaxUint64 - uint64(t.Choose(50, "g_off2"))
		}
	}
	selfThr := thr(si+2, so+81+300, gratis) // roughly incl. the code lookup entry added below
	slack := []uint64{0, 1, 50, 500, 5000, 1000000, 1 << 62}[t.Choose(7, "slack")]
	selfBal := selfThr + slack

	// ---- incoming transfers / operands ------------------------------------
	nIn := t.Choose(3, "n_in")
	for i := 0; i < nIn; i++ {
		amt := uint64(t.Choose(1000, "in_amt"))
		sc.credit += amt
		sc.inputs = append(sc.inputs, types.OperandOrDeferredTransfer{DeferredTransfer: &types.DeferredTransfer{SenderID: peerID, ReceiverID: selfID, Balance: types.U64(amt), GasLimit: 10}})
	}

	// ---- program ----------------------------------------------------------
	d := &pvmasm.Data{}
	a := pvmasm.New()
	memo := d.Reserve(128)
	outBuf := d.Reserve(512)
	hashAddr := map[types.OpaqueHash]uint64{}
	putHash := func(h types.OpaqueHash) uint64 {
		if p, ok := hashAddr[h]; ok {
			return p
		}
		p := d.Put(h[:])
		hashAddr[h] = p
		return p
	}
	ptr := func(p uint64) uint64 { // occasionally an unreadable pointer
		if !sweep && t.Prob(1, 60, "badptr") {
			return badPtr
		}
		return p
	}
	// filler: ordinary memory and register instructions between the host calls, so that basic blocks hold more
	// than register loads and an `ecalli` (every executed instruction costs one unit of gas)
	scratch := uint32(d.Reserve(8))
	fillers := t.Prob(1, 2, "fillers")
	filler := func() int {
		if !fillers || !t.Prob(1, 3, "filler_here") {
			return 0
		}
		n := 1 + t.Choose(3, "nfiller")
		for i := 0; i < n; i++ {
			switch t.Choose(4, "filler_kind") {
			case 3:
				a.Fallthrough() // ends the basic block: what follows is entered at a block start
			case 0:
				a.StoreImmU8(scratch+uint32(i), byte(0x40+i))
			case 1:
				a.LoadU8(12, scratch)
			default:
				a.MoveReg(12, 11)
			}
		}
		r.Count("probe:filler_instructions_between_host_calls", int64(n))
		return n
	}
	emit := func(op int, note string, regs map[int]uint64) {
		nf := filler()
		defer func() { sc.steps[len(sc.steps)-1].nInstr += nf }()
		for reg := 7; reg <= 12; reg++ {
			if v, ok := regs[reg]; ok {
				a.LoadImm64(reg, v)
			}
		}
		if op == hUnknown {
			// identifiers that are in no table: small, beyond the name table, beyond one octet, beyond 16 bits, and
			// one-octet immediates of 0x80 and more (sign-extended to identifiers near 2^64)
			switch v := t.Choose(8, "unknown_id"); v {
			case 0, 1:
				a.Ecalli(uint32(hUnknown))
			case 2:
				a.Ecalli(101)
			case 3:
				a.Ecalli(200)
			case 4:
				a.Ecalli(256 + uint32(t.Choose(27, "unknown_id_low_octet"))) // low octet = a defined identifier
			case 5:
				a.Ecalli(70000)
			default:
				a.EcalliRaw([]byte{0x80, 0xC8, 0xFF}[v-6])
			}
		} else {
			a.Ecalli(uint32(op))
		}
		sc.steps = append(sc.steps, step{op: op, regs: regs, nInstr: len(regs) + 1, visible: op != hUnknown, note: note})
	}
	svc := func() uint64 {
		switch t.Choose(5, "svc") {
		case 0:
			return noneReg
		case 1:
			return uint64(selfID)
		case 2:
			return uint64(peerID)
		case 3:
			return uint64(childID)
		default:
			return 424242 // does not exist
		}
	}
	newCodeHash := h256([]byte("code-of-new-service"))
	amountNear := func() uint64 {
		room := slack + sc.credit
		switch t.Choose(8, "amt") {
		case 0:
			return 0
		case 1:
			return room
		case 2:
			return room + 1
		case 3:
			if room > 0 {
				return room - 1
			}
			return 0
		case 4:
			return selfBal + sc.credit
		case 5:
			return selfBal + sc.credit + 1
		case 6:
			return math.MaxUint64 - uint64(t.Choose(3, "amt_top"))
		default:
			return uint64(t.Choose(300, "amt_small"))
		}
	}
	nSteps := t.Range(1, 40, "nsteps")
	if sweep && nSteps > 14 {
		nSteps = 14
	}
	weights := []int{6, 3, 2, 1, 5, 4, 1, 4, 2, 2, 3, 3, 2, 2, 1, 1, 1, 1, 1}
	ops := []int{hWrite, hRead, hInfo, hLookup, hCheckpoint, hTransfer, hUpgrade, hNew, hEject, hQuery, hSolicit, hForget, hYield, hProvide, hGas, hBless, hAssign, hDesignate, hUnknown}
	for s := 0; s < nSteps; s++ {
		op := ops[t.Pick(weights, "op")]
		switch op {
		case hWrite:
			k := keys[t.Choose(len(keys), "wkey")]
			var v []byte
			if !t.Prob(1, 4, "wdelete") {
				v = vals()
			}
			regs := map[int]uint64{7: ptr(d.Put(k)), 8: uint64(len(k)), 9: d.Put(v), 10: uint64(len(v))}
			if len(k) == 0 {
				regs[7] = 0
			}
			emit(op, fmt.Sprintf("write(%q,%d)", k, len(v)), regs)
		case hRead:
			k := keys[t.Choose(len(keys), "rkey")]
			emit(op, fmt.Sprintf("read(%q)", k), map[int]uint64{7: svc(), 8: d.Put(k), 9: uint64(len(k)), 10: outBuf, 11: uint64(t.Choose(3, "rf")), 12: uint64(t.Choose(600, "rl"))})
		case hInfo:
			emit(op, "info", map[int]uint64{7: svc(), 8: outBuf, 9: 0, 10: 200})
		case hLookup:
			emit(op, "lookup", map[int]uint64{7: svc(), 8: ptr(putHash(lookKey(t.Choose(3, "lk")).Hash)), 9: outBuf, 10: 0, 11: 64})
		case hCheckpoint:
			emit(op, "checkpoint", map[int]uint64{})
		case hTransfer:
			dest := []uint64{uint64(peerID), uint64(peerID), uint64(selfID), 424242, uint64(childID)}[t.Choose(5, "tdest")]
			amt := amountNear()
			gasArg := uint64([]int{0, 6, 7, 14, 40}[t.Choose(5, "tgas")])
			if !sweep && t.Prob(1, 12, "tgas_huge") {
				gasArg = []uint64{1 << 40, math.MaxUint64, 1 << 63, 1<<63 + 1<<40, math.MaxUint64 - 1000000, 1<<63 - 1}[t.Choose(6, "tgh")]
			}
			emit(op, fmt.Sprintf("transfer(%d,%d,gas=%d)", dest, amt, gasArg), map[int]uint64{7: dest, 8: amt, 9: gasArg, 10: ptr(memo)})
		case hUpgrade:
			emit(op, "upgrade", map[int]uint64{7: ptr(putHash(newCodeHash)), 8: uint64(t.Choose(50, "ug")), 9: uint64(t.Choose(50, "um"))})
		case hNew:
			var l uint64
			switch t.Choose(6, "newl") {
			case 0:
				l = uint64(t.Choose(200, "newl_small"))
			case 1:
				l = 1<<32 - 1
			case 2:
				l = 1 << 32 // not a valid length: panic
			case 3: // threshold of the new account lands exactly around what the caller can spare
				room := slack + sc.credit
				if room >= 201 {
					l = room - 201 + uint64(t.Choose(3, "newl_edge"))
				}
				if l >= 1<<32 {
					l = 1<<32 - 1
				}
			case 4: // more than the caller owns in total
				l = selfBal + sc.credit + uint64(t.Choose(100, "newl_over"))
				if l >= 1<<32 {
					l = 1<<32 - 1
				}
			default:
				l = 40
			}
			f := uint64(0)
			if t.Prob(1, 4, "new_gratis") {
				f = uint64(t.Choose(500, "new_f"))
			}
			i := uint64(t.Choose(3, "new_i")) * 300
			emit(op, fmt.Sprintf("new(l=%d,f=%d,i=%d)", l, f, i), map[int]uint64{7: ptr(putHash(newCodeHash)), 8: l, 9: 3, 10: 4, 11: f, 12: i})
		case hEject:
			lk := h256([]byte("child-code"))
			dst := []uint64{uint64(childID), uint64(peerID), uint64(selfID), 424242}[t.Choose(4, "edest")]
			emit(op, fmt.Sprintf("eject(%d)", dst), map[int]uint64{7: dst, 8: ptr(putHash(lk))})
		case hQuery, hSolicit, hForget:
			i := t.Choose(3, "lq")
			z := uint64(lookKey(i).Length)
			if t.Prob(1, 5, "wrong_z") {
				z += 1
			}
			if op == hSolicit && !sweep && t.Prob(1, 10, "solicit_big") {
				z = []uint64{1<<32 - 1, slack, slack + 1}[t.Choose(3, "sb")]
				if z >= 1<<32 {
					z = 1<<32 - 1
				}
			}
			emit(op, fmt.Sprintf("%s(pre%d,z=%d)", hostName[op], i, z), map[int]uint64{7: ptr(putHash(lookKey(i).Hash)), 8: z})
		case hYield:
			var y [32]byte
			y[0] = byte(s + 1)
			emit(op, "yield", map[int]uint64{7: ptr(d.Put(y[:]))})
		case hProvide:
			i := t.Choose(3, "pp")
			emit(op, fmt.Sprintf("provide(pre%d)", i), map[int]uint64{7: svc(), 8: ptr(d.Put(pre[i])), 9: uint64(len(pre[i]))})
		case hGas:
			emit(op, "gas", map[int]uint64{})
		case hBless:
			assign := make([]byte, 4*types.CoresCount)
			for c := 0; c < types.CoresCount; c++ {
				copy(assign[4*c:], u32le(uint32(selfID)))
			}
			always := append(u32le(uint32(peerID)), make([]byte, 8)...)
			m := uint64(selfID)
			if t.Prob(1, 4, "bless_big") {
				m = 1 << 32
			}
			emit(op, "bless", map[int]uint64{7: m, 8: ptr(d.Put(assign)), 9: uint64(peerID), 10: uint64(selfID), 11: d.Put(always), 12: 1})
		case hAssign:
			q := make([]byte, 32*types.AuthQueueSize)
			q[0] = byte(s + 1)
			emit(op, "assign", map[int]uint64{7: uint64(t.Choose(types.CoresCount+1, "acore")), 8: ptr(d.Put(q)), 9: uint64(peerID)})
		case hDesignate:
			v := make([]byte, 336*types.ValidatorsCount)
			v[0] = byte(s + 1)
			emit(op, "designate", map[int]uint64{7: ptr(d.Put(v))})
		case hUnknown:
			emit(op, "unknown-id", map[int]uint64{})
		}
	}
	// ---- ending -------------------------------------------------------------
	copy(sc.out32[:], []byte("halt-output-32-bytes-long-value!"))
	sc.end = ending(t.Pick([]int{4, 3, 2, 3, 2, 2}, "ending"))
	switch sc.end {
	case endHalt0:
		a.LoadImm64(7, outBuf)
		a.LoadImm64(8, 0)
		a.Halt()
		sc.tailInstr = 3
	case endHalt32:
		a.LoadImm64(7, d.Put(sc.out32[:]))
		a.LoadImm64(8, 32)
		a.Halt()
		sc.tailInstr = 3
	case endHaltOther:
		a.LoadImm64(7, outBuf)
		a.LoadImm64(8, uint64([]int{1, 31, 33, 64}[t.Choose(4, "outlen")]))
		a.Halt()
		sc.tailInstr = 3
	case endTrap:
		a.Trap()
		sc.tailInstr = 1
	case endLoop:
		a.LoopForever()
		sc.tailInstr = 1 << 30
	case endFault:
		before := 0
		if t.Bool("fault_in_fresh_block") {
			a.Fallthrough() // the faulting instruction sits in a basic block that is entered at its start
			before++
		}
		for i := t.Choose(3, "fault_before"); i > 0; i-- {
			a.StoreImmU8(scratch, byte(i))
			before++
		}
		addr := []uint32{0, 0xFFFF, 0x8000, 0x10000, 0x1F000, 0x7FFF0000}[t.Choose(6, "fault_addr")]
		if t.Bool("fault_is_load") {
			a.LoadU8(12, addr)
		} else {
			a.StoreImmU8(addr, 1)
		}
		for i := t.Choose(4, "fault_after"); i > 0; i-- { // never executed; same basic block
			a.LoadImm64(12, uint64(i))
		}
		a.Trap()
		sc.tailInstr = before + 1
	}
	sc.blob = pvmasm.Standard(a.Blob(), d.Bytes, 4096)
	metaCode := encodeMetaCode(sc.blob)
	sc.codeHash = h256(metaCode)
	self.preimage[sc.codeHash] = metaCode
	self.lookups[types.LookupMetaMapkey{Hash: sc.codeHash, Length: types.U32(len(metaCode))}] = types.TimeSlotSet{1}
	self.info.CodeHash = sc.codeHash

	// finalise self footprint/balance
	si, so = self.derived()
	if !sc.hugeArm {
		recItems, recOctets = si, so
	}
	self.info.Items, self.info.Bytes, self.info.DepositOffset = types.U32(recItems), types.U64(recOctets), types.U64(gratis)
	trueThr := uint64(math.MaxUint64) // capped: not representable means no balance can cover it
	{
		tb := new(big.Int).SetUint64(100)
		tb.Add(tb, new(big.Int).Mul(big.NewInt(10), new(big.Int).SetUint64(recItems)))
		tb.Add(tb, new(big.Int).SetUint64(recOctets))
		tb.Sub(tb, new(big.Int).SetUint64(gratis))
		if tb.Sign() < 0 {
			tb.SetInt64(0)
		}
		if tb.IsUint64() {
			trueThr = tb.Uint64()
		}
	}
	for _, ac := range accts[1:] {
		i2, o2 := ac.derived()
		ac.info.Items, ac.info.Bytes = types.U32(i2), types.U64(o2)
		if ac.info.Balance == 0 && ac.id != childID && ac.id != richID {
			ac.info.Balance = types.U64(thr(i2, o2, 0) + 1000)
		}
	}
	// a consistent state: total issuance (all balances + incoming credit) stays below 2^64
	room := new(big.Int).SetUint64(math.MaxUint64 - 2000)
	room.Sub(room, new(big.Int).SetUint64(sc.credit))
	for _, ac := range accts[1:] {
		room.Sub(room, new(big.Int).SetUint64(uint64(ac.info.Balance)))
	}
	want := new(big.Int).Add(new(big.Int).SetUint64(trueThr), new(big.Int).SetUint64(slack))
	if want.Cmp(room) > 0 {
		want = room
	}
	selfBal = want.Uint64()
	self.info.Balance = types.U64(selfBal)
	self.info.MinItemGas, self.info.MinMemoGas = 1, 1
	if hasRich {
		// total issuance stays just below 2^64 (a consistent state): the rich account takes what is left
		total := new(big.Int).SetUint64(sc.credit)
		for _, ac := range accts {
			if ac.id != richID {
				total.Add(total, new(big.Int).SetUint64(uint64(ac.info.Balance)))
			}
		}
		left := new(big.Int).Sub(new(big.Int).SetUint64(math.MaxUint64), total)
		left.Sub(left, new(big.Int).SetUint64(richGap))
		for _, ac := range accts {
			if ac.id == richID {
				if left.Sign() > 0 {
					ac.info.Balance = types.U64(left.Uint64())
				} else {
					ac.info.Balance = 0
				}
			}
		}
	}
	sc.balances = map[types.ServiceID]uint64{}
	for _, ac := range accts {
		sc.balances[ac.id] = uint64(ac.info.Balance)
	}
	sc.desc = append(sc.desc, fmt.Sprintf("self{bal=%d thr=%d slack=%d items=%d octets=%d gratis=%d} manager=%d registrar=%d credit=%d huge=%v raw=%v child=%v",
		selfBal, trueThr, slack, recItems, recOctets, gratis, manager, registrar, sc.credit, sc.hugeArm, sc.rawArm, hasChild))

	specs := accts
	sc.mkState = func() (types.PartialStateSet, types.StateKeyVals) {
		ps := types.PartialStateSet{
			ServiceAccounts: types.ServiceAccountState{},
			ValidatorKeys:   make(types.ValidatorsData, types.ValidatorsCount),
			Authorizers:     make(types.AuthQueues, types.CoresCount),
			Bless:           manager, Designate: designate, CreateAcct: registrar,
			Assign:      make(types.ServiceIDList, types.CoresCount),
			AlwaysAccum: types.AlwaysAccumulateMap{peerID: 5},
		}
		for c := range ps.Authorizers {
			ps.Authorizers[c] = make(types.AuthQueue, types.AuthQueueSize)
			ps.Assign[c] = selfID
		}
		var raw types.StateKeyVals
		// an unrelated raw entry that must survive untouched
		raw = append(raw, merklization.WrapEncodeDelta2KeyVal(peerID, []byte("peer-raw"), []byte("untouched")))
		for _, sp := range specs {
			ac := types.ServiceAccount{ServiceInfo: sp.info, PreimageLookup: types.PreimagesMapEntry{}, LookupDict: types.LookupMetaMapEntry{}, StorageDict: types.Storage{}}
			for k, v := range sp.storage {
				ac.StorageDict[k] = append(types.ByteSequence(nil), v...)
			}
			for k, v := range sp.lookups {
				ac.LookupDict[k] = append(types.TimeSlotSet{}, v...)
			}
			for k, v := range sp.preimage {
				ac.PreimageLookup[k] = append(types.ByteSequence(nil), v...)
			}
			for _, k := range sortedStr(sp.rawStore) {
				raw = append(raw, merklization.WrapEncodeDelta2KeyVal(sp.id, []byte(k), append(types.ByteSequence(nil), sp.rawStore[k]...)))
			}
			for _, k := range sortedLook(sp.rawLook) {
				raw = append(raw, merklization.EncodeDelta4KeyVal(sp.id, k, sp.rawLook[k]))
			}
			ps.ServiceAccounts[sp.id] = ac
		}
		return ps, raw
	}
	return sc
}

// 128-bit helper for generator-side arithmetic
type u128 struct{ hi, lo uint64 }

func new128(v uint64) u128 { return u128{0, v} }
func (a u128) add(v uint64) u128 {
	lo := a.lo + v
	if lo < a.lo {
		a.hi++
	}
	a.lo = lo
	return a
}
