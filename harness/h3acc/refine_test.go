//go:build verif

// Refine-table arm of the C04 check: "every host call exactly its specified charge" also holds for the host calls
// of the refinement table (export, machine, peek, poke, pages, invoke, expunge, gas, log, unknown identifiers).
// Generated programs issue such calls with boundary-biased registers through PVM.Psi_M with PVM.RefineOmegas; the
// harness observes the gas counter around every call through wrappers placed in the exported table and compares
// with the cost model of the property (1 per executed instruction, 10 per host call, whatever the call returns).
// Only gas is judged here: what the calls do to inner machines is another property (not claimed).
package h3acc_test

import (
	"fmt"
	"math"

	"github.com/New-JAMneration/JAM-Protocol/PVM"
	"github.com/New-JAMneration/JAM-Protocol/internal/types"
	"github.com/New-JAMneration/JAM-Protocol/internal/zzverif/pvmasm"
	"github.com/New-JAMneration/JAM-Protocol/internal/zzverif/sim"
)

type refCall struct {
	op        int
	gasBefore int64
	gasAfter  int64
	exit      PVM.ExitReason
	r7        uint64
}

var refCur *[]refCall
var refineWrapped bool

func installRefineWrappers() {
	if refineWrapped {
		return
	}
	refineWrapped = true
	for i := range PVM.RefineOmegas {
		orig := PVM.RefineOmegas[i]
		if orig == nil {
			continue
		}
		op := i
		PVM.RefineOmegas[i] = func(in PVM.OmegaInput) PVM.OmegaOutput {
			if refCur == nil {
				return orig(in)
			}
			c := refCall{op: op, gasBefore: int64(*in.VM.Gas)}
			out := orig(in)
			c.gasAfter = int64(*in.VM.Gas)
			c.exit = out.ExitReason
			c.r7 = in.VM.Registers[7]
			*refCur = append(*refCur, c)
			return out
		}
	}
}

type refStep struct {
	op     int
	nInstr int // instructions of the group incl. the ecalli
	note   string
}

var refineOps = []int{0, 7, 8, 9, 10, 11, 12, 13, 100}

func runRefineGas(r *sim.Run) {
	installRefineWrappers()
	t := r.T
	d := &pvmasm.Data{}
	a := pvmasm.New()
	buf := d.Reserve(4096 + 64)
	// a tiny valid inner program for `machine`: trap
	inner := d.Put(pvmasm.New().Blob())
	var steps []refStep
	argVal := func() uint64 {
		switch t.Choose(9, "refine_arg") {
		case 0:
			return 0
		case 1:
			return 1
		case 2:
			return buf
		case 3:
			return uint64(t.Choose(64, "refine_small"))
		case 4:
			return 1 << 32
		case 5:
			return math.MaxUint64
		case 6:
			return inner
		case 7:
			return buf + 4096
		}
		return 0x10 // below 2^16: never accessible
	}
	n := 1 + t.Choose(10, "refine_ncalls")
	for i := 0; i < n; i++ {
		op := refineOps[t.Choose(len(refineOps), "refine_op")]
		raw := -1
		if t.Prob(1, 6, "refine_unknown") {
			// not in the refinement table: identifiers of other tables, identifiers beyond every table, and the
			// one-octet immediates of 0x80 and more, which sign-extend to identifiers near 2^64
			ids := []int{77, 99, 14, 20, 26, 101, 127, 128, 200, 255, 256, 70000, -0xC8, -0x80, -0xFF}
			op = ids[t.Choose(len(ids), "refine_unknown_id")]
			if op < 0 {
				raw, op = -op, 1<<40 // any identifier that is in no table
			}
		}
		k := 0
		if t.Prob(1, 3, "refine_block_boundary") {
			a.Fallthrough()
			k++
		}
		for reg := 7; reg <= 12; reg++ {
			if t.Prob(2, 3, "refine_set_reg") {
				a.LoadImm64(reg, argVal())
				k++
			}
		}
		if raw >= 0 {
			a.EcalliRaw(byte(raw))
			steps = append(steps, refStep{op: op, nInstr: k + 1, note: fmt.Sprintf("ecalli <one octet 0x%02x>", raw)})
		} else {
			a.Ecalli(uint32(op))
			steps = append(steps, refStep{op: op, nInstr: k + 1, note: fmt.Sprintf("ecalli %d", op)})
		}
	}
	end := t.Choose(2, "refine_end")
	tail := 0
	if end == 0 {
		a.LoadImm64(7, buf)
		a.LoadImm64(8, 0)
		a.Halt()
		tail = 3
	} else {
		a.Trap()
		tail = 1
	}
	blob := pvmasm.Standard(a.Blob(), d.Bytes, 4096)
	run := func(limit uint64) (calls []refCall, res PVM.Psi_M_ReturnType, goPanic string) {
		refCur = &calls
		defer func() {
			refCur = nil
			if v := recover(); v != nil {
				goPanic = fmt.Sprint(v)
			}
		}()
		res = PVM.Psi_M(PVM.StandardCodeFormat(blob), 0, types.Gas(limit), PVM.Argument{}, PVM.RefineOmegas,
			PVM.HostCallArgs{RefineArgs: PVM.RefineArgs{IntegratedPVMMap: PVM.IntegratedPVMMap{}}})
		return
	}
	const lead = 5 // the five leading fallthrough instructions are executed when the entry point is 0
	check := func(limit uint64, tag string) bool {
		calls, res, goPanic := run(limit)
		if goPanic != "" {
			r.Violate("C04", "panic", "refine-host-call-go-panic", "%s: a Go panic escaped the refinement host-call loop: %s; program %v", tag, goPanic, steps)
			return false
		}
		// walk the cost model
		gas := int64(limit)
		if limit > math.MaxInt64 {
			return true
		}
		pending := int64(lead)
		// simple sequential model: every step costs its instructions, then 10 for the call
		ci := 0
		for _, s := range steps {
			gas -= pending + int64(s.nInstr)
			pending = 0
			if gas < 0 {
				// out of gas before (or at) the ecalli instruction
				goto oog
			}
			if s.op >= 0 && s.op < len(PVM.RefineOmegas) && PVM.RefineOmegas[s.op] != nil {
				if ci >= len(calls) {
					r.Violate("C04", "charge", "refine-call-not-observed", "%s: the model reaches %s with %d gas left but the host call was not made (%d calls observed); program %v", tag, s.note, gas, len(calls), steps)
					return false
				}
				c := calls[ci]
				ci++
				if c.gasBefore != gas {
					r.Violate("C04", "charge", "refine-instruction-charge-between-calls", "%s: %s entered with %d gas, the model says %d; program %v", tag, s.note, c.gasBefore, gas, steps)
					return false
				}
				if gas < 10 {
					if c.exit.GetReasonType() != PVM.OUT_OF_GAS {
						r.Violate("C04", "oog", "refine-oog-not-at-model-point", "%s: %s entered with %d gas (less than its charge of 10) but the call did not end in out-of-gas (exit %v); program %v", tag, s.note, gas, c.exit.GetReasonType(), steps)
						return false
					}
					goto oog
				}
				if c.exit.GetReasonType() == PVM.OUT_OF_GAS {
					r.Violate("C04", "oog", "refine-oog-not-at-model-point", "%s: %s entered with %d gas (enough for its charge of 10) but ended in out-of-gas; program %v", tag, s.note, gas, steps)
					return false
				}
				if charged := c.gasBefore - c.gasAfter; charged != 10 {
					r.Violate("C04", "charge", fmt.Sprintf("refine-host-call-charge-%d", s.op), "%s: %s (returned r7=%d, exit %v) charged %d gas, the specified charge is 10; program %v", tag, s.note, c.r7, c.exit.GetReasonType(), charged, steps)
					return false
				}
				gas -= 10
				r.Count(fmt.Sprintf("probe:refine_call_charge_checked_%d", s.op), 1)
				if c.exit.GetReasonType() != PVM.CONTINUE {
					// the call itself ended the program (panic): reported usage = everything up to here
					if uint64(res.Gas) != limit-uint64(gas) {
						r.Violate("C04", "reported", "refine-reported-gas-after-panicking-call", "%s: %s ended the program with %d gas left; reported used %d, expected %d", tag, s.note, gas, res.Gas, limit-uint64(gas))
						return false
					}
					return true
				}
			} else {
				// identifier not in the table: WHAT after the charge of 10
				if gas < 10 {
					goto oog
				}
				gas -= 10
			}
		}
		gas -= int64(tail)
		if gas < 0 {
			goto oog
		}
		if uint64(res.Gas) != limit-uint64(gas) {
			r.Violate("C04", "reported", "refine-reported-gas-wrong", "%s: the program ends (%s) with %d gas left by the model; reported used %d, expected %d; program %v", tag, []string{"halt", "trap"}[end], gas, res.Gas, limit-uint64(gas), steps)
			return false
		}
		return true
	oog:
		if uint64(res.Gas) != limit {
			r.Violate("C04", "reported", "refine-reported-gas-after-oog", "%s: the model runs out of gas; reported used %d of %d; program %v", tag, res.Gas, limit, steps)
			return false
		}
		return true
	}
	if !check(bigGas, "refine gas=unlimited") {
		return
	}
	calls, res, _ := run(bigGas)
	_ = calls
	used := uint64(res.Gas)
	if used < 400 && t.Prob(1, 2, "refine_sweep") {
		for g := uint64(0); g <= used+1; g++ {
			if !check(g, fmt.Sprintf("refine gas=%d", g)) {
				return
			}
		}
		r.Count("probe:refine_exhaustive_gas_sweeps", 1)
	} else if used > 0 {
		check(uint64(t.Choose(int(used)+2, "refine_gas_cut")), "refine gas=cut")
	}
	r.Nontrivial()
	r.Shape(uint64(len(steps))<<16 ^ uint64(end) ^ 0xF00D)
	r.Summary("refinement-table program: %d host calls, %d gas used", len(steps), used)
}

// Long-block arm of the C04 check: "one unit per executed instruction, out of gas exactly where the counter runs out"
// must not depend on how long a basic block is. The program is one straight-line basic block of n instructions
// (n around and beyond 2^16 and 2^17: counters of block lengths narrower than the program allows would wrap there),
// optionally with one `gas` host call in the middle (host calls do not end a block: execution resumes mid-block).
// The block counts its own executed additions in r9 and halts returning r9 octets, so a run that executed more than
// it paid for is visible in the result as well as in the exit reason.
func runLongBlock(r *sim.Run) {
	installRefineWrappers()
	t := r.T
	ns := []int{1 << 16, 1<<16 + 1, 1<<16 + 2, 1<<16 - 1, 1<<16 + 7, 70000, 1 << 17, 1<<17 + 1, 1<<17 + 5, 3<<16 + 2, 1000, 40000}
	n := ns[t.Choose(len(ns), "long_n")] + t.Choose(3, "long_n_jitter")
	adds := n - 3 // the block ends with load_imm_64 r7, move_reg r8<-r9, jump_ind (halt)
	call := -1
	if t.Prob(1, 3, "long_call") {
		call = t.Choose(adds, "long_call_at")
		adds-- // the ecalli takes the place of one addition
	}
	d := &pvmasm.Data{}
	buf := d.Reserve(adds + 16)
	a := pvmasm.New()
	pre := t.Choose(3, "long_prologue") // short blocks before the long one
	for i := 0; i < pre; i++ {
		a.MoveReg(12, 11)
		a.Fallthrough()
	}
	a.LoadImm64(9, 0)
	a.Fallthrough()
	head := 5 + 2*pre + 2
	for i, k := 0, 0; k < adds; i++ {
		if i == call {
			a.Ecalli(0)
			continue
		}
		a.AddImm64(9, 9, 1)
		k++
	}
	if call >= adds { // the call position fell behind the last addition
		a.Ecalli(0)
	}
	a.LoadImm64(7, buf)
	a.MoveReg(8, 9)
	a.Halt()
	blob := pvmasm.Standard(a.Blob(), d.Bytes, 4096)
	total := uint64(head + n)
	if call >= 0 {
		total += 10
	}
	run := func(limit uint64) (res PVM.Psi_M_ReturnType, calls []refCall, goPanic string) {
		refCur = &calls
		defer func() {
			refCur = nil
			if v := recover(); v != nil {
				goPanic = fmt.Sprint(v)
			}
		}()
		res = PVM.Psi_M(PVM.StandardCodeFormat(blob), 0, types.Gas(limit), PVM.Argument{}, PVM.RefineOmegas,
			PVM.HostCallArgs{RefineArgs: PVM.RefineArgs{IntegratedPVMMap: PVM.IntegratedPVMMap{}}})
		return
	}
	desc := fmt.Sprintf("one basic block of %d instructions (%d additions, host call at %d) after %d short blocks", n, adds, call, pre)
	check := func(limit uint64, tag string) bool {
		res, calls, goPanic := run(limit)
		if goPanic != "" {
			r.Violate("C04", "panic", "long-block-go-panic", "%s gas=%d: a Go panic escaped: %s; program: %s", tag, limit, goPanic, desc)
			return false
		}
		out, halted := res.ReasonOrBytes.([]byte)
		if limit >= total {
			if !halted {
				r.Violate("C04", "oog", "long-block-stopped-with-enough-gas", "%s: gas %d pays for all %d units of the program, but it ended with %v; program: %s", tag, limit, total, res.ReasonOrBytes, desc)
				return false
			}
			if len(out) != adds {
				r.Violate("C04", "charge", "long-block-executed-count-wrong", "%s: the program halted having executed %d additions, it holds %d; program: %s", tag, len(out), adds, desc)
				return false
			}
			if uint64(res.Gas) != total {
				r.Violate("C04", "reported", "long-block-reported-gas-wrong", "%s: gas %d: reported used %d, the program costs %d; program: %s", tag, limit, res.Gas, total, desc)
				return false
			}
			return true
		}
		if halted {
			r.Violate("C04", "oog", "long-block-ran-beyond-its-gas", "%s: gas %d does not pay for the %d units of the program, yet it halted having executed %d additions; program: %s", tag, limit, total, len(out), desc)
			return false
		}
		if rs, ok := res.ReasonOrBytes.(PVM.ExitReason); ok && rs.GetReasonType() != PVM.OUT_OF_GAS {
			r.Violate("C04", "oog", "long-block-wrong-exit", "%s: gas %d of %d needed: expected out-of-gas, got %v; program: %s", tag, limit, total, rs.GetReasonType(), desc)
			return false
		}
		if uint64(res.Gas) != limit {
			r.Violate("C04", "reported", "long-block-reported-gas-after-oog", "%s: out of gas with limit %d but reported used %d; program: %s", tag, limit, res.Gas, desc)
			return false
		}
		if call >= 0 {
			// the host call is reached iff the gas pays for everything before it; it is entered with what is left
			before := uint64(head + call + 1)
			if call >= adds {
				before = uint64(head + adds + 1)
			}
			if limit >= before && len(calls) != 1 {
				r.Violate("C04", "charge", "long-block-host-call-not-reached", "%s: gas %d pays for the %d instructions up to the host call, %d calls observed; program: %s", tag, limit, before, len(calls), desc)
				return false
			}
			if limit < before && len(calls) != 0 {
				r.Violate("C04", "oog", "long-block-host-call-reached-without-gas", "%s: gas %d does not pay for the %d instructions up to the host call, yet it was made; program: %s", tag, limit, before, desc)
				return false
			}
			if len(calls) == 1 && calls[0].gasBefore != int64(limit-before) {
				r.Violate("C04", "charge", "long-block-gas-at-host-call", "%s: host call entered with %d gas, the model says %d; program: %s", tag, calls[0].gasBefore, limit-before, desc)
				return false
			}
		}
		return true
	}
	if !check(bigGas, "long block") {
		return
	}
	// limits around every boundary a wrapped counter would move the out-of-gas point to
	lims := []uint64{total, total - 1, total + 1, uint64(head), uint64(head + 1), uint64(head + (n-1)%65536), uint64(head + (n-1)%65536 + 1),
		uint64(head + n%65536), uint64(head + n%65536 + 2), uint64(head + 65535), uint64(head + 65536), uint64(head + 65537), 100, 0}
	for i := 0; i < 4; i++ {
		lims = append(lims, uint64(t.Choose(int(total)+2, "long_gas")))
	}
	for _, g := range lims {
		if !check(g, "long block") {
			return
		}
	}
	r.Count("probe:long_block_programs", 1)
	if n > 1<<16 {
		r.Count("probe:block_longer_than_65536_instructions", 1)
	}
	r.Nontrivial()
	r.Shape(uint64(n)<<8 ^ uint64(pre) ^ uint64(call+1)<<32 ^ 0xB10C)
	r.Summary("long block: %s", desc)
}
