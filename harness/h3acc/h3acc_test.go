//go:build verif

// H3 acc-sim: the accumulation invocation Psi_A as a transaction. The simulator
// owns the abort point (gas limit from the tape, or swept exhaustively), the
// generated guest program and the initial partial state; every host call is
// observed through wrappers placed into the exported PVM.AccumulateOmegas slice,
// which snapshot (by serialising) registers, gas and the X/Y contexts.
//
// Decides C10 (checkpoint/rollback), C08 (token conservation), C09 (footprint
// and threshold accounting) and the abort-consistency half of C04 (gas).
package h3acc_test

import (
	"bytes"
	"encoding/binary"
	"fmt"
	"math"
	"math/big"
	"os"
	"sort"
	"strings"
	"testing"

	"github.com/New-JAMneration/JAM-Protocol/PVM"
	"github.com/New-JAMneration/JAM-Protocol/internal/types"
	"github.com/New-JAMneration/JAM-Protocol/internal/utilities/merklization"
	"github.com/New-JAMneration/JAM-Protocol/internal/zzverif/pvmasm"
	"github.com/New-JAMneration/JAM-Protocol/internal/zzverif/sim"
)

func sortedStr(m map[string][]byte) []string {
	ks := make([]string, 0, len(m))
	for k := range m {
		ks = append(ks, k)
	}
	sort.Strings(ks)
	return ks
}

func sortedLook(m map[types.LookupMetaMapkey]types.TimeSlotSet) []types.LookupMetaMapkey {
	ks := make([]types.LookupMetaMapkey, 0, len(m))
	for k := range m {
		ks = append(ks, k)
	}
	sort.Slice(ks, func(i, j int) bool {
		if c := bytes.Compare(ks[i].Hash[:], ks[j].Hash[:]); c != 0 {
			return c < 0
		}
		return ks[i].Length < ks[j].Length
	})
	return ks
}

// ---------------------------------------------------------------------------
// snapshots (serialised: immune to aliasing)
// ---------------------------------------------------------------------------

type acctSnap struct {
	canon          string
	balance        uint64
	items          uint64 // recorded
	octets         uint64 // recorded
	gratis         uint64
	dItems, dOctet *big.Int // derived from dictionary entries + attributable raw entries
}

type ctxSnap struct {
	accts     map[types.ServiceID]*acctSnap
	acctsStr  string
	priv      string
	transfers string
	xferSum   *big.Int
	exception string
	blobs     string
	raw       string
	importID  types.ServiceID
}

func (c *ctxSnap) full() string {
	return c.acctsStr + "\nPRIV " + c.priv + "\nXFER " + c.transfers + "\nEXC " + c.exception + "\nBLOBS " + c.blobs + "\nRAW " + c.raw
}

func (c *ctxSnap) sum() *big.Int {
	s := new(big.Int).Set(c.xferSum)
	for _, a := range c.accts {
		s.Add(s, new(big.Int).SetUint64(a.balance))
	}
	return s
}

type rawAttr struct {
	sid     types.ServiceID
	storage bool
	key     string
	look    types.LookupMetaMapkey
}

func canonAccount(a types.ServiceAccount) string {
	var b strings.Builder
	i := a.ServiceInfo
	fmt.Fprintf(&b, "info{ch=%x bal=%d g=%d m=%d o=%d f=%d i=%d r=%d a=%d p=%d}", i.CodeHash[:6], i.Balance, i.MinItemGas, i.MinMemoGas, i.Bytes, i.DepositOffset, i.Items, i.CreationSlot, i.LastAccumulationSlot, i.ParentService)
	sk := make([]string, 0, len(a.StorageDict))
	for k := range a.StorageDict {
		sk = append(sk, k)
	}
	sort.Strings(sk)
	for _, k := range sk {
		fmt.Fprintf(&b, " s[%q]=%x", k, []byte(a.StorageDict[k]))
	}
	for _, k := range sortedLook(a.LookupDict) {
		fmt.Fprintf(&b, " l[%x/%d]=%v", k.Hash[:6], k.Length, []types.TimeSlot(a.LookupDict[k]))
	}
	ph := make([]string, 0, len(a.PreimageLookup))
	for h, p := range a.PreimageLookup {
		ph = append(ph, fmt.Sprintf("%x:%d", h[:6], len(p)))
	}
	sort.Strings(ph)
	fmt.Fprintf(&b, " p%v", ph)
	return b.String()
}

func snapPartial(ps types.PartialStateSet, raw types.StateKeyVals, attr map[types.StateKey]rawAttr) (map[types.ServiceID]*acctSnap, string, string, string) {
	accts := map[types.ServiceID]*acctSnap{}
	ids := make([]int, 0, len(ps.ServiceAccounts))
	for id := range ps.ServiceAccounts {
		ids = append(ids, int(id))
	}
	sort.Ints(ids)
	var sb strings.Builder
	// raw entries, attributed
	rawItems := map[types.ServiceID]map[string]int{} // logical key -> octets
	rs := make([]string, 0, len(raw))
	for _, kv := range raw {
		rs = append(rs, fmt.Sprintf("%x=%x", kv.Key[:], []byte(kv.Value)))
		if at, ok := attr[kv.Key]; ok {
			if rawItems[at.sid] == nil {
				rawItems[at.sid] = map[string]int{}
			}
			if at.storage {
				rawItems[at.sid]["s:"+at.key] = 34 + len(at.key) + len(kv.Value)
			} else {
				rawItems[at.sid][fmt.Sprintf("l:%x/%d", at.look.Hash, at.look.Length)] = 81 + int(at.look.Length)
			}
		}
	}
	sort.Strings(rs)
	for _, id := range ids {
		a := ps.ServiceAccounts[types.ServiceID(id)]
		s := &acctSnap{canon: canonAccount(a), balance: uint64(a.ServiceInfo.Balance), items: uint64(a.ServiceInfo.Items), octets: uint64(a.ServiceInfo.Bytes), gratis: uint64(a.ServiceInfo.DepositOffset),
			dItems: new(big.Int), dOctet: new(big.Int)}
		logical := map[string]bool{}
		for k, v := range a.StorageDict {
			logical["s:"+k] = true
			s.dItems.Add(s.dItems, big.NewInt(1))
			s.dOctet.Add(s.dOctet, big.NewInt(int64(34+len(k)+len(v))))
		}
		for k := range a.LookupDict {
			logical[fmt.Sprintf("l:%x/%d", k.Hash, k.Length)] = true
			s.dItems.Add(s.dItems, big.NewInt(2))
			s.dOctet.Add(s.dOctet, big.NewInt(81+int64(k.Length)))
		}
		for lk, oct := range rawItems[types.ServiceID(id)] {
			if logical[lk] {
				continue
			}
			n := int64(1)
			if strings.HasPrefix(lk, "l:") {
				n = 2
			}
			s.dItems.Add(s.dItems, big.NewInt(n))
			s.dOctet.Add(s.dOctet, big.NewInt(int64(oct)))
		}
		accts[types.ServiceID(id)] = s
		fmt.Fprintf(&sb, "acct %d: %s\n", id, s.canon)
	}
	aa := make([]string, 0, len(ps.AlwaysAccum))
	for k, v := range ps.AlwaysAccum {
		aa = append(aa, fmt.Sprintf("%d:%d", k, v))
	}
	sort.Strings(aa)
	vh := h256([]byte(fmt.Sprintf("%v", ps.ValidatorKeys)))
	ah := h256([]byte(fmt.Sprintf("%v", ps.Authorizers)))
	priv := fmt.Sprintf("m=%d a=%v v=%d r=%d z=%v iota=%x phi=%x", ps.Bless, ps.Assign, ps.Designate, ps.CreateAcct, aa, vh[:4], ah[:4])
	return accts, sb.String(), priv, strings.Join(rs, ",")
}

func xferStr(ts []types.DeferredTransfer) (string, *big.Int) {
	sum := new(big.Int)
	var b strings.Builder
	for _, t := range ts {
		fmt.Fprintf(&b, "{%d->%d amt=%d gas=%d memo=%x}", t.SenderID, t.ReceiverID, t.Balance, t.GasLimit, t.Memo[:4])
		sum.Add(sum, new(big.Int).SetUint64(uint64(t.Balance)))
	}
	return b.String(), sum
}

func blobsStr(bs []types.ServiceBlob) string {
	s := make([]string, 0, len(bs))
	for _, b := range bs {
		s = append(s, fmt.Sprintf("%d:%x", b.ServiceID, b.Blob))
	}
	sort.Strings(s)
	return strings.Join(s, ",")
}

func snapCtx(rc PVM.ResultContext, attr map[types.StateKey]rawAttr) *ctxSnap {
	var raw types.StateKeyVals
	if rc.StorageKeyVal != nil {
		raw = *rc.StorageKeyVal
	}
	c := &ctxSnap{importID: rc.ImportServiceID}
	c.accts, c.acctsStr, c.priv, c.raw = snapPartial(rc.PartialState, raw, attr)
	c.transfers, c.xferSum = xferStr(rc.DeferredTransfers)
	if rc.Exception != nil {
		c.exception = fmt.Sprintf("%x", rc.Exception[:])
	}
	bl := make([]types.ServiceBlob, 0, len(rc.ServiceBlobs))
	for _, b := range rc.ServiceBlobs {
		bl = append(bl, b)
	}
	c.blobs = blobsStr(bl)
	return c
}

// ---------------------------------------------------------------------------
// observation through PVM.AccumulateOmegas
// ---------------------------------------------------------------------------

type call struct {
	op                  int
	regsIn              PVM.Registers
	gasBefore, gasAfter int64
	exit                PVM.ExitReason
	r7, r8              uint64
	xBefore             *ctxSnap // first call only
	x, y                *ctxSnap // after the call
	infoThr             *uint64  // info: threshold field written to guest memory
	infoTarget          types.ServiceID
	copiesAgree         bool
}

type recorder struct {
	calls []*call
	attr  map[types.StateKey]rawAttr
}

var cur *recorder

func installWrappers() {
	for i := range PVM.AccumulateOmegas {
		orig := PVM.AccumulateOmegas[i]
		if orig == nil || i == 100 {
			continue
		}
		op := i
		PVM.AccumulateOmegas[i] = func(in PVM.OmegaInput) PVM.OmegaOutput {
			rec := cur
			if rec == nil {
				return orig(in)
			}
			c := &call{op: op, regsIn: *in.VM.Registers, gasBefore: int64(*in.VM.Gas)}
			if len(rec.calls) == 0 {
				c.xBefore = snapCtx(in.Addition.AccumulateArgs.ResultContextX, rec.attr)
			}
			out := orig(in)
			c.gasAfter = int64(*in.VM.Gas)
			c.exit = out.ExitReason
			c.r7, c.r8 = in.VM.Registers[7], in.VM.Registers[8]
			c.x = snapCtx(out.Addition.AccumulateArgs.ResultContextX, rec.attr)
			c.y = snapCtx(out.Addition.AccumulateArgs.ResultContextY, rec.attr)
			sid := out.Addition.AccumulateArgs.ResultContextX.ServiceID
			c.copiesAgree = true
			if g := out.Addition.GeneralArgs; g.ServiceAccount != nil && g.ServiceAccountState != nil {
				a1 := canonAccount(*g.ServiceAccount)
				a2 := canonAccount((*g.ServiceAccountState)[sid])
				if xa, ok := out.Addition.AccumulateArgs.ResultContextX.PartialState.ServiceAccounts[sid]; ok {
					c.copiesAgree = a1 == a2 && a2 == canonAccount(xa)
				}
			}
			if op == hInfo && out.ExitReason == PVM.ExitContinue && c.r7 != PVM.NONE && c.r7 >= 48 && c.regsIn[9] == 0 && c.regsIn[10] >= 48 {
				b := in.VM.Memory.Read(c.regsIn[8], 48)
				if len(b) == 48 {
					v := binary.LittleEndian.Uint64(b[40:48])
					c.infoThr = &v
					c.infoTarget = sid
					if c.regsIn[7] != math.MaxUint64 {
						c.infoTarget = types.ServiceID(c.regsIn[7])
					}
				}
			}
			rec.calls = append(rec.calls, c)
			return out
		}
	}
}

// ---------------------------------------------------------------------------
// one execution of a scenario under a gas limit
// ---------------------------------------------------------------------------

type execResult struct {
	rec      *recorder
	res      PVM.Psi_A_ReturnType
	limit    uint64
	initial  *ctxSnap // expected initial context, computed from the inputs
	resSnap  *ctxSnap // what Psi_A returned, in snapshot form
	resHash  string
	panicMsg string
}

func buildAttr(sc *scenario) map[types.StateKey]rawAttr {
	attr := map[types.StateKey]rawAttr{}
	keys := [][]byte{[]byte("k"), []byte("key2"), []byte("a-longer-storage-key-0123456789"), {}, []byte("peer-raw")}
	pre := [][]byte{[]byte("preimage-A"), []byte("preimage-B-longer-blob-xxxxxxxxxxxxxxxx"), []byte("P3")}
	for _, sid := range []types.ServiceID{selfID, peerID, childID, richID} {
		for _, k := range keys {
			attr[merklization.WrapEncodeDelta2KeyVal(sid, k, nil).Key] = rawAttr{sid: sid, storage: true, key: string(k)}
		}
		for _, p := range pre {
			for _, dz := range []int{0, 1} {
				lk := types.LookupMetaMapkey{Hash: h256(p), Length: types.U32(len(p) + dz)}
				attr[merklization.EncodeDelta4Key(sid, lk)] = rawAttr{sid: sid, look: lk}
			}
		}
	}
	return attr
}

func execute(sc *scenario, limit uint64) (er *execResult) {
	ps, raw := sc.mkState()
	er = &execResult{rec: &recorder{attr: buildAttr(sc)}, limit: limit}
	// expected initial context: inputs + credit of incoming transfers
	{
		ps0, raw0 := sc.mkState()
		a := ps0.ServiceAccounts[selfID]
		a.ServiceInfo.Balance += types.U64(sc.credit)
		ps0.ServiceAccounts[selfID] = a
		er.initial = &ctxSnap{xferSum: new(big.Int)}
		er.initial.accts, er.initial.acctsStr, er.initial.priv, er.initial.raw = snapPartial(ps0, raw0, er.rec.attr)
	}
	cur = er.rec
	defer func() {
		cur = nil
		if v := recover(); v != nil {
			er.panicMsg = fmt.Sprint(v)
		}
	}()
	er.res = PVM.Psi_A(ps, sc.timeslot, selfID, types.Gas(limit), sc.inputs, sc.eta, raw)
	cur = nil
	rs := &ctxSnap{}
	rs.accts, rs.acctsStr, rs.priv, rs.raw = snapPartial(er.res.PartialStateSet, er.res.StorageKeyVal, er.rec.attr)
	rs.transfers, rs.xferSum = xferStr(er.res.DeferredTransfers)
	rs.blobs = blobsStr(er.res.ServiceBlobs)
	er.resSnap = rs
	if er.res.Result != nil {
		er.resHash = fmt.Sprintf("%x", er.res.Result[:])
	}
	return er
}

// outcome as derived from the observation log and the static shape of the program
type outcome struct {
	aborted   bool
	how       string
	completed int // visible host calls that returned Continue
	// set when the program ended in a trap / memory fault with gas to spare: gas left after the last host call
	tailGasLeft int64
	tailKnown   bool
}

// gasModel replays the cost model of the property text over the static program:
// 1 per executed instruction (loads, ecalli, halt/trap/jump), 10 per host call,
// transfer additionally its gas argument when it succeeds. extra[i] is what the
// i-th visible call charged beyond 10 in the reference run.
type modelPoint struct {
	visibleCalls int // number of wrapper-observed calls (including the one that runs out inside)
	oog          bool
	where        string
}

// ---------------------------------------------------------------------------
// checks
// ---------------------------------------------------------------------------

func bigU(v uint64) *big.Int { return new(big.Int).SetUint64(v) }

var two64 = new(big.Int).Lsh(big.NewInt(1), 64)

func thresholdBig(items, octets, gratis uint64) *big.Int {
	t := big.NewInt(100)
	t.Add(t, new(big.Int).Mul(big.NewInt(10), bigU(items)))
	t.Add(t, bigU(octets))
	t.Sub(t, bigU(gratis))
	if t.Sign() < 0 {
		t.SetInt64(0)
	}
	return t
}

func errCode(v uint64) string {
	switch v {
	case PVM.NONE:
		return "NONE"
	case PVM.WHAT:
		return "WHAT"
	case PVM.OOB:
		return "OOB"
	case PVM.WHO:
		return "WHO"
	case PVM.FULL:
		return "FULL"
	case PVM.CORE:
		return "CORE"
	case PVM.CASH:
		return "CASH"
	case PVM.LOW:
		return "LOW"
	case PVM.HUH:
		return "HUH"
	}
	return ""
}

func isErr(v uint64) bool { return errCode(v) != "" }

type checker struct {
	r   *sim.Run
	sc  *scenario
	tag string // "limit=…" for messages
}

func (ck *checker) ctx(i int, c *call) string {
	return fmt.Sprintf("%s call#%d %s(r7..r12=%v) -> exit=%v r7=%s", ck.tag, i, hostName[c.op], fmtRegs(c.regsIn), c.exit.GetReasonType(), fmtR7(c.r7))
}

func fmtRegs(r PVM.Registers) string {
	return fmt.Sprintf("[%d %d %d %d %d %d]", r[7], r[8], r[9], r[10], r[11], r[12])
}
func fmtR7(v uint64) string {
	if e := errCode(v); e != "" {
		return e
	}
	return fmt.Sprint(v)
}

// checkRun evaluates every per-call and end-of-run invariant on one execution.
func (ck *checker) checkRun(er *execResult) {
	r, sc := ck.r, ck.sc
	if er.panicMsg != "" {
		// a host-language panic inside the invocation: observed, attributed to the transaction property
		r.Violate("C10", "go-panic", "psi_a-go-panic", "%s Psi_A raised a Go panic: %s; program %v", ck.tag, er.panicMsg, progDesc(sc))
		return
	}
	calls := er.rec.calls
	prev := er.initial
	if len(calls) > 0 {
		// the context the first host call sees must be the expected initial context
		if calls[0].xBefore.full() != prev.full() {
			r.Violate("C10", "initial-context", "initial-context-wrong", "%s first host call sees a context different from inputs+credit:\n got %s\nwant %s", ck.tag, calls[0].xBefore.full(), prev.full())
			return
		}
		prev = calls[0].xBefore
	}
	cp := er.initial // state captured at the most recent checkpoint (initial context if none)
	completed := 0
	abortedInCall := ""
	for i, c := range calls {
		where := ck.ctx(i, c)
		cont := c.exit == PVM.ExitContinue
		// ---------------- C04: per-call charge ------------------------------------------------
		if r.Wants("C04") {
			want := c.gasBefore - 10
			switch {
			case c.exit.GetReasonType() == PVM.OUT_OF_GAS && c.op == hTransfer && c.gasBefore >= 10:
				// ran out on the transfer's own gas argument: remaining gas is zeroed
				if c.gasAfter != 0 {
					r.Violate("C04", "charge", "transfer-oog-gas-not-zero", "%s: out-of-gas on the transfer gas argument must leave 0 gas, has %d", where, c.gasAfter)
				}
			case cont && c.op == hTransfer && c.r7 == PVM.OK:
				// the gas limit handed to the receiver (an unsigned 64-bit register) is charged to the sender; a limit
				// above what is left after the call's own charge cannot be paid: the call must end out-of-gas
				if c.gasBefore >= 10 && c.regsIn[9] > uint64(c.gasBefore-10) {
					r.Violate("C04", "oog", "transfer-gas-limit-above-remaining-gas-accepted", "%s: transfer accepted a gas limit of %d with only %d gas left after its charge; it must end out-of-gas", where, c.regsIn[9], c.gasBefore-10)
					break
				}
				want -= int64(c.regsIn[9])
				fallthrough
			default:
				if c.gasAfter != want {
					r.Violate("C04", "charge", "host-call-charge-"+hostName[c.op], "%s: gas %d -> %d, the specified charge leaves %d", where, c.gasBefore, c.gasAfter, want)
				}
			}
			// a host call that is entered with its charge of 10 or more ends out-of-gas only through a transfer's own gas limit
			if c.gasBefore >= 10 && c.exit.GetReasonType() == PVM.OUT_OF_GAS && !(c.op == hTransfer && c.regsIn[9] > uint64(c.gasBefore-10)) {
				r.Violate("C04", "oog", "host-call-out-of-gas-with-enough-gas", "%s: entered with %d gas (the charge is 10) and ended out-of-gas", where, c.gasBefore)
			}
			// a host call that cannot be paid has no effect: neither on the live context nor on the checkpoint copy
			if c.gasBefore < 10 && (c.x.full() != prev.full() || c.y.full() != cp.full()) {
				r.Violate("C04", "oog", "unpaid-host-call-took-effect-"+hostName[c.op], "%s: only %d gas left (the charge is 10), yet the call changed the accumulation context or its checkpoint copy", where, c.gasBefore)
			}
			if c.gasBefore < 10 && c.exit.GetReasonType() != PVM.OUT_OF_GAS {
				r.Violate("C04", "oog", "host-call-ran-without-gas", "%s: only %d gas left, the call must end out-of-gas", where, c.gasBefore)
			}
		}
		// ---------------- C10: the checkpoint copy never changes behind our back ----------------
		if r.Wants("C10") {
			// a transfer whose gas limit exceeds the gas that is left runs the invocation out of gas: the results must be
			// those of the checkpoint; a call that carries on lets everything after the checkpoint survive
			if cont && c.op == hTransfer && c.r7 == PVM.OK && c.gasBefore >= 10 && c.regsIn[9] > uint64(c.gasBefore-10) {
				r.Violate("C10", "abort-not-taken", "out-of-gas-on-transfer-gas-limit-not-taken", "%s: the transfer's gas limit %d exceeds the %d gas left, the invocation is out of gas and must fall back to the checkpoint; it carried on", where, c.regsIn[9], c.gasBefore-10)
			}
			// a checkpoint entered with exactly its charge is paid for: it is taken (and the invocation runs out of gas
			// afterwards); one that cannot be paid must leave the earlier checkpoint in place
			if c.op == hCheckpoint && !cont && c.gasBefore >= 10 && c.exit.GetReasonType() == PVM.OUT_OF_GAS {
				r.Violate("C10", "checkpoint", "paid-checkpoint-not-taken", "%s: the checkpoint call was entered with %d gas (its charge is 10) but ended out-of-gas: the checkpoint it paid for is lost", where, c.gasBefore)
			}
			if c.op == hCheckpoint && !cont && c.gasBefore < 10 && c.y.full() != cp.full() {
				r.Violate("C10", "checkpoint", "unpaid-checkpoint-taken", "%s: the checkpoint call could not be paid (%d gas) but the checkpoint copy changed:\n now  %s\n was  %s", where, c.gasBefore, c.y.full(), cp.full())
			}
			if c.op == hCheckpoint && cont {
				if c.y.full() != c.x.full() {
					r.Violate("C10", "checkpoint", "checkpoint-copy-differs", "%s: checkpoint copy differs from the live context:\n Y %s\n X %s", where, c.y.full(), c.x.full())
				}
				if c.x.full() != prev.full() {
					r.Violate("C10", "checkpoint", "checkpoint-changed-state", "%s: checkpoint changed the live context", where)
				}
			} else if c.y.full() != cp.full() {
				r.Violate("C10", "leak", "mutation-leaked-into-checkpoint-"+hostName[c.op], "%s: the checkpoint copy changed without a checkpoint call:\n now  %s\n was  %s", where, c.y.full(), cp.full())
			}
		}
		if c.op == hCheckpoint && cont {
			cp = c.x
			r.Count("probe:checkpoint_taken", 1)
		}
		if !cont {
			abortedInCall = fmt.Sprintf("%s in %s", c.exit.GetReasonType(), hostName[c.op])
			if c.exit.GetReasonType() == PVM.OUT_OF_GAS {
				r.Count("probe:oog_inside_host_call", 1)
			}
			// state at the abort is irrelevant for conservation (it is discarded) – but must not be what survives
			break
		}
		completed++
		// ---------------- C08: conservation --------------------------------------------------------
		if r.Wants("C08") {
			sb, sa := prev.sum(), c.x.sum()
			if sa.Cmp(sb) > 0 {
				r.Violate("C08", "sum-increased", "sum-increased-"+hostName[c.op], "%s: balances+deferred transfers grew from %s to %s", where, sb, sa)
			}
			balEq := true
			for id, a := range prev.accts {
				if b, ok := c.x.accts[id]; !ok || b.balance != a.balance {
					balEq = false
				}
			}
			if len(prev.accts) != len(c.x.accts) {
				balEq = false
			}
			self0, self1 := prev.accts[selfID], c.x.accts[selfID]
			switch {
			case c.r7 == PVM.CASH:
				r.Count("probe:cash_returned", 1)
				if !balEq || prev.transfers != c.x.transfers {
					r.Violate("C08", "cash", "cash-changed-balances-"+hostName[c.op], "%s: returned CASH but balances or transfers changed:\n before %s\n after  %s", where, prev.acctsStr, c.x.acctsStr)
				}
			case c.op == hTransfer && c.r7 == PVM.OK:
				amt := bigU(c.regsIn[8])
				if self0 != nil && self1 != nil {
					if new(big.Int).Sub(bigU(self0.balance), amt).Cmp(bigU(self1.balance)) != 0 {
						r.Violate("C08", "transfer", "transfer-sender-balance-wrong", "%s: sender balance %d -> %d for amount %s", where, self0.balance, self1.balance, amt)
					}
					// the caller must stay at or above its own threshold
					if th := thresholdBig(self1.items, self1.octets, self1.gratis); th.Cmp(two64) < 0 && bigU(self1.balance).Cmp(th) < 0 {
						r.Violate("C08", "transfer", "transfer-left-caller-below-threshold", "%s: caller balance %d is below its threshold %s after a successful transfer", where, self1.balance, th)
					}
				}
				if new(big.Int).Sub(c.x.xferSum, prev.xferSum).Cmp(amt) != 0 {
					r.Violate("C08", "transfer", "transfer-amount-not-deferred", "%s: deferred amounts grew by %s, not by the amount", where, new(big.Int).Sub(c.x.xferSum, prev.xferSum))
				}
				r.Count("probe:transfer_ok", 1)
			case c.op == hNew && !isErr(c.r7):
				nid := types.ServiceID(c.r7)
				na := c.x.accts[nid]
				if na == nil || prev.accts[nid] != nil {
					r.Violate("C08", "new", "new-account-missing", "%s: returned id %d but no new account appeared", where, nid)
					break
				}
				want := thresholdBig(na.items, na.octets, na.gratis) // the threshold of the account as created
				if bigU(na.balance).Cmp(want) != 0 {
					r.Violate("C08", "new", "new-account-balance-not-threshold", "%s: new account has balance %d, its threshold is %s", where, na.balance, want)
				}
				if self0 != nil && self1 != nil {
					if new(big.Int).Sub(bigU(self0.balance), bigU(na.balance)).Cmp(bigU(self1.balance)) != 0 {
						r.Violate("C08", "new", "new-creator-balance-wrapped", "%s: creator balance %d -> %d while the new account received %d (exact difference would be %s)", where, self0.balance, self1.balance, na.balance, new(big.Int).Sub(bigU(self0.balance), bigU(na.balance)))
					}
					if th := thresholdBig(self1.items, self1.octets, self1.gratis); th.Cmp(two64) < 0 && bigU(self1.balance).Cmp(th) < 0 {
						r.Violate("C08", "new", "new-left-creator-below-threshold", "%s: creator balance %d is below its threshold %s after a successful creation (CASH expected)", where, self1.balance, th)
					}
				}
				r.Count("probe:new_ok", 1)
			case c.op == hEject && c.r7 == PVM.OK:
				did := types.ServiceID(c.regsIn[7])
				d0 := prev.accts[did]
				if d0 == nil || c.x.accts[did] != nil || self0 == nil || self1 == nil {
					r.Violate("C08", "eject", "eject-account-not-removed", "%s: eject returned OK but account %d was not removed", where, did)
					break
				}
				if new(big.Int).Add(bigU(self0.balance), bigU(d0.balance)).Cmp(bigU(self1.balance)) != 0 {
					r.Violate("C08", "eject", "eject-balance-wrapped", "%s: caller balance %d + ejected %d != %d", where, self0.balance, d0.balance, self1.balance)
				}
				r.Count("probe:eject_ok", 1)
			default:
				if !balEq {
					r.Violate("C08", "balance-changed", "balance-changed-by-"+hostName[c.op], "%s: balances changed by a call that moves no tokens:\n before %s\n after  %s", where, prev.acctsStr, c.x.acctsStr)
				}
			}
		}
		// ---------------- C09: footprint and threshold -------------------------------------------
		if r.Wants("C09") {
			for id, a1 := range c.x.accts {
				a0 := prev.accts[id]
				if ck.sc.hugeArm && id == selfID {
					// this arm starts from recorded counts that are deliberately not the derived ones (threshold
					// inputs near 2^32 / 2^64): only threshold and FULL/CASH decisions are judged for it
					continue
				}
				if a0 == nil {
					// created by this call: recorded counts must be the derived ones
					if bigU(a1.items).Cmp(a1.dItems) != 0 || bigU(a1.octets).Cmp(a1.dOctet) != 0 {
						r.Violate("C09", "footprint", "new-account-footprint-wrong", "%s: new account %d records items=%d octets=%d, its entries give items=%s octets=%s", where, id, a1.items, a1.octets, a1.dItems, a1.dOctet)
					}
					continue
				}
				dRecI := new(big.Int).Sub(bigU(a1.items), bigU(a0.items))
				dRecO := new(big.Int).Sub(bigU(a1.octets), bigU(a0.octets))
				dDerI := new(big.Int).Sub(a1.dItems, a0.dItems)
				dDerO := new(big.Int).Sub(a1.dOctet, a0.dOctet)
				if dRecI.Cmp(dDerI) != 0 || dRecO.Cmp(dDerO) != 0 {
					r.Violate("C09", "footprint", "footprint-delta-"+hostName[c.op], "%s: account %d recorded footprint changed by (items %s, octets %s) but its entries changed by (items %s, octets %s)\n before %s\n after  %s", where, id, dRecI, dRecO, dDerI, dDerO, a0.canon, a1.canon)
				}
			}
			if c.r7 == PVM.FULL {
				r.Count("probe:full_returned", 1)
				if prev.full() != c.x.full() {
					r.Violate("C09", "full", "full-changed-state-"+hostName[c.op], "%s: returned FULL but the context changed:\n before %s\n after  %s", where, prev.full(), c.x.full())
				}
			}
			if c.infoThr != nil {
				if t := prev.accts[c.infoTarget]; t != nil {
					want := thresholdBig(t.items, t.octets, t.gratis)
					if want.Cmp(two64) >= 0 {
						r.Count("probe:threshold_not_representable", 1)
					} else if want.Uint64() != *c.infoThr {
						kind := "threshold-wrong"
						if t.items > math.MaxUint32/10 {
							kind = "threshold-items-term-overflows-32-bits"
						} else if new(big.Int).Add(bigU(t.octets), bigU(10*t.items+100)).Cmp(two64) >= 0 {
							kind = "threshold-sum-overflows-64-bits"
						}
						r.Violate("C09", "threshold", kind, "%s: info reports threshold %d for account %d (items=%d octets=%d gratis=%d); B_S+B_I*i+B_L*o-f floored at zero is %s", where, *c.infoThr, c.infoTarget, t.items, t.octets, t.gratis, want)
					} else {
						r.Count("probe:threshold_checked", 1)
					}
				}
			}
			// a successful mutation never leaves the caller below its threshold (else FULL was due)
			if s1 := c.x.accts[selfID]; s1 != nil && (c.op == hWrite || c.op == hSolicit) && !isErr(c.r7) {
				if th := thresholdBig(s1.items, s1.octets, s1.gratis); th.Cmp(two64) < 0 && bigU(s1.balance).Cmp(th) < 0 {
					s0 := prev.accts[selfID]
					if s0 != nil && thresholdBig(s0.items, s0.octets, s0.gratis).Cmp(th) < 0 {
						r.Violate("C09", "full", "mutation-raised-threshold-above-balance-"+hostName[c.op], "%s: accepted although the new threshold %s exceeds the balance %d", where, th, s1.balance)
					}
				}
			}
			if !c.copiesAgree {
				r.Count("probe:caller_account_copies_disagree", 1)
			}
		}
		prev = c.x
	}
	// ---------------- end of run ---------------------------------------------------------------------
	nVisible := 0
	for _, s := range sc.steps {
		if s.visible {
			nVisible++
		}
	}
	out := outcome{completed: completed}
	switch {
	case abortedInCall != "":
		out.aborted, out.how = true, abortedInCall
	case completed < nVisible:
		out.aborted, out.how = true, "out of gas between host calls"
	default:
		// all host calls done: the ending decides, unless the gas ran out in the last few instructions
		gasLeft := int64(er.limit)
		if er.limit > math.MaxInt64 {
			gasLeft = -1
		}
		if len(calls) > 0 {
			gasLeft = calls[len(calls)-1].gasAfter
			for i := len(sc.steps) - 1; i >= 0 && !sc.steps[i].visible; i-- { // trailing unobserved (unknown-id) calls
				gasLeft -= int64(sc.steps[i].nInstr) + 10
			}
		} else {
			for _, s := range sc.steps {
				gasLeft -= int64(s.nInstr) + 10
			}
		}
		switch sc.end {
		case endTrap, endFault:
			out.aborted, out.how = true, map[ending]string{endTrap: "trap", endFault: "memory fault"}[sc.end]
			if gasLeft < int64(sc.tailInstr) {
				out.how = "out of gas before " + out.how
			} else {
				out.tailGasLeft, out.tailKnown = gasLeft, true
			}
		case endLoop:
			out.aborted, out.how = true, "gas burnt in loop"
		default:
			if gasLeft < int64(sc.tailInstr) {
				out.aborted, out.how = true, "out of gas in the halting sequence"
			} else {
				out.how = "halt"
			}
		}
	}
	// C08 at the end of the invocation: what Psi_A hands back (balances of the returned state plus the amounts of the
	// returned deferred transfers) is what the rest of the node goes on with; it must not exceed what went in,
	// however the invocation ended (halt, panic, out of gas; with or without a checkpoint)
	if r.Wants("C08") && er.resSnap != nil && er.resSnap.xferSum != nil {
		in, outSum := er.initial.sum(), er.resSnap.sum()
		if outSum.Cmp(in) > 0 {
			how := "halt"
			if out.aborted {
				how = "abort"
			}
			r.Violate("C08", "sum-increased", "returned-sum-exceeds-initial-after-"+how, "%s (%s; %d host calls completed): the invocation returns balances + deferred transfers = %s, it started with %s\n returned accounts %s\n returned transfers %s\n program %v", ck.tag, out.how, completed, outSum, in, er.resSnap.acctsStr, er.resSnap.transfers, progDesc(sc))
		} else {
			r.Count("probe:returned_sum_checked", 1)
		}
	}
	if r.Wants("C10") {
		want := prev
		if out.aborted {
			want = cp
			r.Count("probe:aborted_runs", 1)
			if cp != er.initial {
				r.Count("probe:abort_after_checkpoint", 1)
			}
		} else {
			r.Count("probe:halted_runs", 1)
		}
		wantRes := want.exception
		if !out.aborted && sc.end == endHalt32 {
			wantRes = fmt.Sprintf("%x", sc.out32[:])
			r.Count("probe:halt_output_overrides_yield", 1)
		}
		got := er.resSnap
		cmp := func(what, g, w string) bool {
			if g != w {
				r.Violate("C10", "result", "result-"+what+"-"+map[bool]string{true: "after-abort", false: "after-halt"}[out.aborted],
					"%s (%s; %d host calls completed): returned %s differs from %s:\n got  %s\n want %s\n program %v", ck.tag, out.how, completed, what,
					map[bool]string{true: "the state captured at the last checkpoint / initial context", false: "the latest state"}[out.aborted], g, w, progDesc(sc))
				return false
			}
			return true
		}
		_ = cmp("accounts", got.acctsStr, want.acctsStr) && cmp("privileges", got.priv, want.priv) && cmp("transfers", got.transfers, want.transfers) &&
			cmp("blobs", got.blobs, want.blobs) && cmp("raw-entries", got.raw, want.raw) && cmp("yield", er.resHash, wantRes)
	}
	if r.Wants("C04") {
		used := uint64(er.res.Gas)
		if used > er.limit {
			r.Violate("C04", "reported", "reported-gas-above-limit", "%s: reported used gas %d exceeds the limit %d", ck.tag, used, er.limit)
		}
		if !out.aborted && len(calls) > 0 && er.limit <= math.MaxInt64 {
			gasLeft := calls[len(calls)-1].gasAfter
			for i := len(sc.steps) - 1; i >= 0 && !sc.steps[i].visible; i-- {
				gasLeft -= int64(sc.steps[i].nInstr) + 10
			}
			wantUsed := int64(er.limit) - (gasLeft - int64(sc.tailInstr))
			if int64(used) != wantUsed {
				r.Violate("C04", "reported", "reported-gas-wrong-after-halt", "%s: halted with %d gas left after the last host call and %d more instructions; reported used %d, expected %d", ck.tag, gasLeft, sc.tailInstr, used, wantUsed)
			}
		}
		// a trap or a faulting load / store with gas to spare: every instruction up to and including the one that
		// stopped the program was executed and costs one unit, nothing behind it was
		if out.tailKnown && er.limit <= math.MaxInt64 {
			wantUsed := int64(er.limit) - (out.tailGasLeft - int64(sc.tailInstr))
			if int64(used) != wantUsed {
				r.Violate("C04", "reported", "reported-gas-wrong-after-"+strings.ReplaceAll(out.how, " ", "-"), "%s: %s with %d gas left after the last host call and %d more executed instruction(s); reported used %d, expected %d\n program %v", ck.tag, out.how, out.tailGasLeft, sc.tailInstr, used, wantUsed, progDesc(sc))
			} else {
				r.Count("probe:reported_gas_checked_after_"+strings.ReplaceAll(out.how, " ", "_"), 1)
			}
		}
		if out.aborted && strings.Contains(out.how, "gas") && used != er.limit && er.limit <= math.MaxInt64 {
			r.Violate("C04", "reported", "reported-gas-after-oog", "%s: ran out of gas (%s) but reports %d used of %d", ck.tag, out.how, used, er.limit)
		}
		// instruction charges between consecutive observed host calls
		vi := -1
		pending := int64(0)
		var last *call
		ci := 0
		for _, s := range sc.steps {
			if !s.visible {
				pending += int64(s.nInstr) + 10
				continue
			}
			vi++
			if ci >= len(calls) {
				break
			}
			c := calls[ci]
			ci++
			base := int64(er.limit)
			if last != nil {
				base = last.gasAfter
			}
			if er.limit <= math.MaxInt64 {
				if want := base - pending - int64(s.nInstr); c.gasBefore != want {
					r.Violate("C04", "charge", "instruction-charge-between-calls", "%s call#%d %s: entered with %d gas; %d instruction(s) and %d gas of unobserved calls after %d should leave %d", ck.tag, vi, hostName[c.op], c.gasBefore, s.nInstr, pending, base, want)
				}
			}
			pending = 0
			last = c
		}
	}
}

func progDesc(sc *scenario) string {
	var p []string
	for _, s := range sc.steps {
		p = append(p, s.note)
	}
	return fmt.Sprintf("%v end=%d | %v", p, sc.end, sc.desc)
}

// comparePrefix: under a smaller gas limit the observed calls must be a prefix of the unlimited run's,
// with identical contexts after each completed call (state reflects only paid-for steps).
func (ck *checker) comparePrefix(ref, er *execResult) {
	r := ck.r
	a, b := ref.rec.calls, er.rec.calls
	if len(b) > len(a) {
		r.Violate("C04", "prefix", "more-calls-with-less-gas", "%s: %d host calls observed, the unlimited run has only %d", ck.tag, len(b), len(a))
		return
	}
	for i, c := range b {
		if c.op != a[i].op {
			r.Violate("C04", "prefix", "call-sequence-differs", "%s: call#%d is %s, unlimited run has %s", ck.tag, i, hostName[c.op], hostName[a[i].op])
			return
		}
		if c.exit == PVM.ExitContinue && a[i].exit == PVM.ExitContinue && c.x.full() != a[i].x.full() {
			r.Violate("C04", "prefix", "state-differs-from-unlimited-run", "%s: after call#%d %s the context differs from the unlimited run's:\n got  %s\n want %s", ck.tag, i, hostName[c.op], c.x.full(), a[i].x.full())
			return
		}
	}
	// exactness: the limited run must stop exactly where the cost model says
	need := int64(0) // gas needed to *complete* call k and everything before it
	k := 0
	ci := 0
	for _, s := range ck.sc.steps {
		need += int64(s.nInstr) + 10
		if !s.visible {
			continue
		}
		if ci < len(a) && a[ci].op == hTransfer && a[ci].r7 == PVM.OK && a[ci].exit == PVM.ExitContinue {
			need += int64(a[ci].regsIn[9])
		}
		if ci >= len(a) || a[ci].exit != PVM.ExitContinue {
			break
		}
		ci++
		completedWant := er.limit <= math.MaxInt64 && int64(er.limit) >= need
		completedGot := k < len(b) && b[k].exit == PVM.ExitContinue
		if er.limit <= math.MaxInt64 && completedWant != completedGot {
			r.Violate("C04", "oog-exact", "oog-not-at-model-point", "%s: call#%d %s needs %d gas in total; limit %d; completed=%v, the cost model says %v", ck.tag, k, hostName[s.op], need, er.limit, completedGot, completedWant)
			return
		}
		k++
	}
}

// ---------------------------------------------------------------------------
// the run
// ---------------------------------------------------------------------------

var selfChecked bool

func selfCheck() {
	// the assembler must agree with the repository's decoder on a fixed table (else: infrastructure error)
	a := pvmasm.New()
	a.LoadImm64(7, 0x1122334455667788)
	a.Ecalli(0)
	a.Halt()
	blob := pvmasm.Standard(a.Blob(), []byte{1, 2, 3}, 4096)
	c, o, w, z, s, err := PVM.DecodeSerializedValues(blob)
	if err != nil || len(o) != 0 || !bytes.Equal(w, []byte{1, 2, 3}) || z != 0 || s != 4096 {
		panic(fmt.Sprintf("pvmasm self-check: standard header mismatch: %v %v %v %v %v", err, o, w, z, s))
	}
	p, ex := PVM.DeBlobProgramCode(c)
	if ex != PVM.ExitContinue || !p.Bitmasks.IsStartOfBasicBlock(5) || p.InstructionData[5] != pvmasm.OpLoadImm64 {
		panic("pvmasm self-check: code blob is not decoded as assembled")
	}
	selfChecked = true
}

const bigGas = 1_000_000_000

func runOne(r *sim.Run) {
	if !selfChecked {
		selfCheck()
		installWrappers()
	}
	t := r.T
	if r.Prop == "C04" && t.Prob(1, 4, "refine_table_arm") {
		if t.Prob(1, 5, "long_block_arm") {
			runLongBlock(r)
			return
		}
		runRefineGas(r)
		return
	}
	sweep := r.Params["mode"] == "sweep" || (r.Prop == "C04" && t.Prob(1, 3, "sweep")) || (r.Prop == "C10" && t.Prob(1, 10, "sweep"))
	sc := genScenario(t, r, sweep)
	ck := &checker{r: r, sc: sc, tag: "gas=unlimited"}
	refGas := uint64(bigGas)
	if sc.end == endLoop {
		refGas = 30000 // the loop burns whatever it is given
	}
	ref := execute(sc, refGas)
	ck.checkRun(ref)
	if r.Violated() {
		return
	}
	used := uint64(ref.res.Gas)
	r.Count("host_calls_observed", int64(len(ref.rec.calls)))
	r.Shape(uint64(len(sc.steps))<<8 ^ uint64(sc.end))
	for _, c := range ref.rec.calls {
		r.Shape(uint64(c.op)<<32 ^ c.r7)
	}
	if sc.hugeArm {
		r.Count("arm:huge_recorded_counts", 1)
	}
	if sc.rawArm {
		r.Count("arm:raw_key_value_entries", 1)
	}
	runLimited := func(g uint64) {
		er := execute(sc, g)
		ck2 := &checker{r: r, sc: sc, tag: fmt.Sprintf("gas=%d", g)}
		ck2.checkRun(er)
		// (a run with MORE gas than the reference run may legitimately get further: a transfer whose gas argument
		// exceeds what the reference run had left is affordable with a limit near 2^63)
		if !r.Violated() && r.Wants("C04") && sc.end != endLoop && g <= refGas {
			ck2.comparePrefix(ref, er)
		}
		r.Count("fault:gas_limit_abort_point", 1)
	}
	if sweep && sc.end != endLoop && used < 700 {
		// fault enumeration: every gas limit 0 … need+1
		for g := uint64(0); g <= used+1 && !r.Violated(); g++ {
			runLimited(g)
		}
		r.Count("probe:exhaustive_gas_sweeps", 1)
	} else {
		// one tape-chosen abort point, plus boundary limits now and then
		if used > 0 && sc.end != endLoop {
			runLimited(uint64(t.Choose(int(min(used, 1<<30))+2, "gas_cut")))
		} else if sc.end == endLoop {
			runLimited(uint64(t.Choose(3000, "gas_loop")))
		}
		if !r.Violated() && t.Prob(1, 10, "gas_top") {
			g := []uint64{1 << 63, math.MaxUint64, 1<<63 - 1}[t.Choose(3, "gas_top_which")]
			if sc.end == endLoop && g < 1<<63 {
				g = 1 << 63 // a loop would really burn 2^63-1 units
			}
			runLimited(g)
			r.Count("probe:gas_limit_at_or_above_2^63", 1)
		}
	}
	if len(ref.rec.calls) >= 3 {
		r.Nontrivial()
	}
	r.Summary("%d steps (%d observed) end=%d used=%d: %v", len(sc.steps), len(ref.rec.calls), sc.end, used, progDesc(sc))
}

func TestVerifH3(t *testing.T) {
	os.Setenv("JAM_FUZZ", "1")
	ok, msg := sim.WorkerMain(runOne)
	if !ok {
		t.Fatal(msg)
	}
	if msg != "" {
		t.Log(msg)
	}
}
