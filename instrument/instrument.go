// Package instrument rewrites selected repository source files so that the
// simulator (internal/zzverif/simrt) owns their scheduling points. It works on
// the CURRENT /repo working tree every time a check is built; nothing it writes
// goes into /repo – the results are supplied to the compiler through -overlay.
//
// Pass A (typed, AST):  mutex Lock/Unlock → simrt lock seam; `go f()` →
// simrt.Go; errgroup Go/Wait; yield before atomics, close(), sends, non-blocking
// selects; Woke after WaitGroup.Wait; optional range-over-map seam.
// Pass B (syntactic, text): every select without default → tape-ordered poll
// followed by the original (blocking) select whose cases start with simrt.Woke.
//
// Anything the rewriter does not understand is an error (the check then exits
// 2): it never guesses.
package instrument

import (
	"bytes"
	"encoding/json"
	"fmt"
	"go/ast"
	"go/format"
	"go/importer"
	"go/parser"
	"go/printer"
	"go/token"
	"go/types"
	"io"
	"os"
	"os/exec"
	"path/filepath"
	"strings"
)

const SimrtPath = "github.com/New-JAMneration/JAM-Protocol/internal/zzverif/simrt"

// Options selects the seams for one file.
type Options struct {
	Yield    bool // scheduler seams
	MapOrder bool // range-over-map seam
	Pool     bool // sync.Pool seam: p.Get() / p.Put(x) go through simrt.PoolGet / simrt.PoolPut (which pooled object is handed out is a tape decision)
	// LoopYieldAll: every `for` / `range` body in the file starts with a yield (needs Yield)
	LoopYieldAll bool
	// GoBodyYield: inside every function literal started as a goroutine (`go func(){…}()`, errgroup `g.Go(func() error {…})`)
	// a yield stands between any two top-level statements (needs Yield): plain shared-variable accesses of concurrent
	// bodies - a store in one statement, the load in the next - can then be separated by the scheduler
	GoBodyYield bool
	MinPool     int
	// MinSites: the rewriter must have produced at least this many seams of each kind, else error
	// ("an expected site is missing because the source was refactored").
	MinLock, MinSelect, MinGo, MinMap int
	// LoopYieldFuncs: in functions with these names every `for` body starts with a yield
	// (extra scheduling points where the code has no synchronisation operation of its own).
	LoopYieldFuncs []string
}

// Warnings collects non-fatal findings of the rewriter (fewer seams than expected); the caller prints them.
var Warnings []string

// Package is a type-checked repo package.
type Package struct {
	Fset  *token.FileSet
	Files map[string]*ast.File // by absolute path
	Info  *types.Info
	Pkg   *types.Package
}

type listPkg struct {
	ImportPath string
	Export     string
	Dir        string
	GoFiles    []string
	CgoFiles   []string
}

// Load type-checks the package in repoDir/pkgDir using export data produced by
// `go list -export -deps` (overlay honoured), standard library only.
func Load(repoDir, pkgDir, overlayPath string, env []string) (*Package, error) {
	args := []string{"list", "-export", "-deps", "-json=ImportPath,Export,Dir,GoFiles,CgoFiles"}
	if overlayPath != "" {
		args = append(args, "-overlay", overlayPath)
	}
	args = append(args, "./"+pkgDir)
	cmd := exec.Command("go", args...)
	cmd.Dir = repoDir
	cmd.Env = env
	var stderr bytes.Buffer
	cmd.Stderr = &stderr
	out, err := cmd.Output()
	if err != nil {
		return nil, fmt.Errorf("go list: %v\n%s", err, stderr.String())
	}
	exports := map[string]string{}
	var target *listPkg
	dec := json.NewDecoder(bytes.NewReader(out))
	for {
		var p listPkg
		if err := dec.Decode(&p); err == io.EOF {
			break
		} else if err != nil {
			return nil, err
		}
		if p.Export != "" {
			exports[p.ImportPath] = p.Export
		}
		if filepath.Clean(p.Dir) == filepath.Clean(filepath.Join(repoDir, pkgDir)) {
			q := p
			target = &q
		}
	}
	if target == nil {
		return nil, fmt.Errorf("package %s not found in go list output", pkgDir)
	}
	fset := token.NewFileSet()
	files := map[string]*ast.File{}
	var list []*ast.File
	for _, f := range target.GoFiles {
		path := filepath.Join(target.Dir, f)
		af, err := parser.ParseFile(fset, path, nil, parser.ParseComments)
		if err != nil {
			return nil, err
		}
		files[path] = af
		list = append(list, af)
	}
	lookup := func(path string) (io.ReadCloser, error) {
		e, ok := exports[path]
		if !ok {
			return nil, fmt.Errorf("no export data for %s", path)
		}
		return os.Open(e)
	}
	info := &types.Info{Types: map[ast.Expr]types.TypeAndValue{}, Selections: map[*ast.SelectorExpr]*types.Selection{}, Uses: map[*ast.Ident]types.Object{}, Defs: map[*ast.Ident]types.Object{}}
	conf := types.Config{Importer: importer.ForCompiler(fset, "gc", lookup), Error: func(error) {}}
	pkg, err := conf.Check(target.ImportPath, fset, list, info)
	if err != nil && pkg == nil {
		return nil, fmt.Errorf("type-check %s: %v", pkgDir, err)
	}
	return &Package{Fset: fset, Files: files, Info: info, Pkg: pkg}, nil
}

// Counts reports what the rewriter did to a file.
type Counts struct {
	Lock, Yield, Select, Go, Map, Woke, Pool int
}

type rewriter struct {
	p         *Package
	opt       Options
	file      string
	base      string
	counts    Counts
	errs      []string
	loopYield bool // inside a function listed in LoopYieldFuncs
	// a maps.Keys / Values / All call was replaced: the file may not use package maps any more
	keepMapsImport bool
}

func (r *rewriter) site(pos token.Pos) string {
	return fmt.Sprintf("%s:%d", r.base, r.p.Fset.Position(pos).Line)
}

func (r *rewriter) errf(pos token.Pos, format string, a ...any) {
	r.errs = append(r.errs, fmt.Sprintf("%s: %s", r.site(pos), fmt.Sprintf(format, a...)))
}

func simCall(fn string, args ...ast.Expr) *ast.CallExpr {
	return &ast.CallExpr{Fun: &ast.SelectorExpr{X: ast.NewIdent("simrt"), Sel: ast.NewIdent(fn)}, Args: args}
}

func strLit(s string) ast.Expr { return &ast.BasicLit{Kind: token.STRING, Value: fmt.Sprintf("%q", s)} }

func namedType(t types.Type) (pkg, name string, ptr bool) {
	if p, ok := t.(*types.Pointer); ok {
		t = p.Elem()
		ptr = true
	}
	if a, ok := t.(*types.Alias); ok {
		t = types.Unalias(a)
	}
	n, ok := t.(*types.Named)
	if !ok {
		return "", "", ptr
	}
	if n.Obj().Pkg() == nil {
		return "", n.Obj().Name(), ptr
	}
	return n.Obj().Pkg().Path(), n.Obj().Name(), ptr
}

// recvType returns the (package, type name, isPointer) of the receiver expression of a method call.
func (r *rewriter) recvType(call *ast.CallExpr) (sel *ast.SelectorExpr, pkg, name string, ptr bool, ok bool) {
	sel, ok = call.Fun.(*ast.SelectorExpr)
	if !ok {
		return nil, "", "", false, false
	}
	tv, has := r.p.Info.Types[sel.X]
	if !has || tv.Type == nil {
		return sel, "", "", false, false
	}
	pkg, name, ptr = namedType(tv.Type)
	return sel, pkg, name, ptr, true
}

func addrOf(x ast.Expr, isPtr bool) ast.Expr {
	if isPtr {
		return x
	}
	return &ast.UnaryExpr{Op: token.AND, X: x}
}

// lockRewrite turns m.Lock() etc. into the simrt call (nil if call is not a mutex op).
func (r *rewriter) lockRewrite(call *ast.CallExpr) *ast.CallExpr {
	sel, pkg, name, ptr, ok := r.recvType(call)
	if !ok || pkg != "sync" || len(call.Args) != 0 {
		return nil
	}
	m := sel.Sel.Name
	var fn string
	switch name {
	case "Mutex":
		switch m {
		case "Lock":
			fn = "Lock"
		case "Unlock":
			fn = "Unlock"
		case "TryLock":
			r.errf(call.Pos(), "TryLock is not supported by the lock seam")
			return nil
		}
	case "RWMutex":
		switch m {
		case "Lock":
			fn = "RWLock"
		case "Unlock":
			fn = "RWUnlock"
		case "RLock":
			fn = "RLock"
		case "RUnlock":
			fn = "RUnlock"
		case "TryLock", "TryRLock", "RLocker":
			r.errf(call.Pos(), "%s is not supported by the lock seam", m)
			return nil
		}
	}
	if fn == "" {
		return nil
	}
	r.counts.Lock++
	args := []ast.Expr{addrOf(sel.X, ptr)}
	if strings.HasSuffix(fn, "Lock") && !strings.HasSuffix(fn, "Unlock") {
		args = append(args, strLit(r.site(call.Pos())))
	}
	return simCall(fn, args...)
}

type need struct {
	yieldBefore bool
	wokeAfter   bool
	why         string
}

// scanOwn inspects the expressions that belong to the statement itself (not to
// nested blocks or function literals) and recurses into function literals.
func (r *rewriter) scanOwn(n ast.Node, nd *need) {
	if n == nil {
		return
	}
	ast.Inspect(n, func(x ast.Node) bool {
		switch e := x.(type) {
		case *ast.FuncLit:
			r.block(e.Body)
			return false
		case *ast.BlockStmt:
			// nested statement lists are handled by the statement walker
			return false
		case *ast.CallExpr:
			if id, ok := e.Fun.(*ast.Ident); ok && id.Name == "close" && len(e.Args) == 1 {
				if _, isBuiltin := r.p.Info.Uses[id].(*types.Builtin); isBuiltin {
					nd.yieldBefore, nd.why = true, "close"
				}
			}
			// maps.Keys / maps.Values / maps.All of the standard library iterate in Go's own random order
			if r.opt.MapOrder {
				if fsel, isSel := e.Fun.(*ast.SelectorExpr); isSel && len(e.Args) == 1 {
					if pid, isID := fsel.X.(*ast.Ident); isID {
						if pn, isPkg := r.p.Info.Uses[pid].(*types.PkgName); isPkg && pn.Imported().Path() == "maps" {
							if fn := map[string]string{"Keys": "MapKeysSeq", "Values": "MapValuesSeq", "All": "MapAllSeq"}[fsel.Sel.Name]; fn != "" {
								e.Fun = &ast.SelectorExpr{X: ast.NewIdent("simrt"), Sel: ast.NewIdent(fn)}
								e.Args = append(e.Args, strLit(r.site(e.Pos())))
								r.counts.Map++
								r.keepMapsImport = true
								return true
							}
						}
					}
				}
			}
			sel, pkg, name, isPtr, ok := r.recvType(e)
			if !ok {
				return true
			}
			if r.opt.Pool && pkg == "sync" && name == "Pool" {
				switch {
				case sel.Sel.Name == "Get" && len(e.Args) == 0:
					e.Fun = &ast.SelectorExpr{X: ast.NewIdent("simrt"), Sel: ast.NewIdent("PoolGet")}
					e.Args = []ast.Expr{addrOf(sel.X, isPtr), strLit(r.site(e.Pos()))}
					r.counts.Pool++
					nd.yieldBefore, nd.why = true, "pool.Get"
					return false
				case sel.Sel.Name == "Put" && len(e.Args) == 1:
					r.scanOwn(e.Args[0], nd)
					e.Fun = &ast.SelectorExpr{X: ast.NewIdent("simrt"), Sel: ast.NewIdent("PoolPut")}
					e.Args = []ast.Expr{addrOf(sel.X, isPtr), e.Args[0], strLit(r.site(e.Pos()))}
					r.counts.Pool++
					nd.yieldBefore, nd.why = true, "pool.Put"
					return false
				}
			}
			switch {
			case pkg == "sync/atomic":
				nd.yieldBefore, nd.why = true, "atomic"
			case pkg == "sync" && name == "WaitGroup" && sel.Sel.Name == "Wait":
				nd.yieldBefore, nd.wokeAfter, nd.why = true, true, "wg.Wait"
			case pkg == "golang.org/x/sync/errgroup" && name == "Group" && sel.Sel.Name == "Wait":
				nd.yieldBefore, nd.wokeAfter, nd.why = true, true, "errgroup.Wait"
			case pkg == "golang.org/x/sync/errgroup" && name == "Group" && (sel.Sel.Name == "Go" || sel.Sel.Name == "TryGo"):
				if len(e.Args) == 1 {
					if fl, isLit := e.Args[0].(*ast.FuncLit); isLit {
						r.block(fl.Body)
						r.goBodyYields(fl)
					}
					if !r.opt.Yield {
						return false // map-order-only instrumentation: goroutines stay unmanaged
					}
					e.Args[0] = simCall("Wrap", strLit(r.site(e.Pos())), e.Args[0])
					r.counts.Go++
					// Go may block on the group's limit semaphore
					nd.yieldBefore, nd.wokeAfter, nd.why = true, true, "errgroup.Go"
					return false
				}
			case pkg == "golang.org/x/sync/singleflight" && name == "Group" && sel.Sel.Name == "Do":
				// may block on an in-flight duplicate call inside the library
				nd.yieldBefore, nd.wokeAfter, nd.why = true, true, "singleflight.Do"
			case pkg == "sync" && name == "Once" && sel.Sel.Name == "Do":
				// no seams inside Once.Do: a second caller would block on Once's
				// internal mutex, which the scheduler cannot see
				nd.yieldBefore, nd.why = true, "once.Do"
				return false
			case pkg == "sync" && name == "Cond":
				r.errf(e.Pos(), "sync.Cond is not supported")
			}
		case *ast.UnaryExpr:
			if e.Op == token.ARROW {
				nd.yieldBefore, nd.wokeAfter, nd.why = true, true, "recv"
			}
		}
		return true
	})
}

func (r *rewriter) yieldStmt(pos token.Pos, why string) ast.Stmt {
	r.counts.Yield++
	return &ast.ExprStmt{X: simCall("Yield", strLit(r.site(pos)+":"+why))}
}

func (r *rewriter) goBodyYields(fl *ast.FuncLit) {
	if !r.opt.GoBodyYield || !r.opt.Yield || fl.Body == nil {
		return
	}
	var out []ast.Stmt
	for i, st := range fl.Body.List {
		if i > 0 {
			pos := st.Pos()
			if !pos.IsValid() {
				pos = fl.Pos()
			}
			out = append(out, r.yieldStmt(pos, "stmt"))
		}
		out = append(out, st)
	}
	fl.Body.List = out
}

func (r *rewriter) wokeStmt(pos token.Pos, why string) ast.Stmt {
	r.counts.Woke++
	return &ast.ExprStmt{X: simCall("Woke", strLit(r.site(pos)+":"+why))}
}

func (r *rewriter) block(b *ast.BlockStmt) {
	if b == nil {
		return
	}
	b.List = r.stmts(b.List)
}

func hasDefault(s *ast.SelectStmt) bool {
	for _, c := range s.Body.List {
		if c.(*ast.CommClause).Comm == nil {
			return true
		}
	}
	return false
}

// stmts rewrites one statement list.
func (r *rewriter) stmts(list []ast.Stmt) []ast.Stmt {
	var out []ast.Stmt
	for _, st := range list {
		var nd need
		pos := st.Pos()
		switch s := st.(type) {
		case *ast.ExprStmt:
			if call, ok := s.X.(*ast.CallExpr); ok && r.opt.Yield {
				if nc := r.lockRewrite(call); nc != nil {
					s.X = nc
					out = append(out, s)
					continue
				}
			}
			r.scanOwn(s.X, &nd)
		case *ast.DeferStmt:
			if r.opt.Yield {
				if nc := r.lockRewrite(s.Call); nc != nil {
					s.Call = nc
					out = append(out, s)
					continue
				}
			}
			// a deferred call runs later: only recurse into literals
			var ignore need
			r.scanOwn(s.Call, &ignore)
		case *ast.GoStmt:
			if r.opt.Yield {
				if len(s.Call.Args) != 0 {
					r.errf(s.Pos(), "go statement with arguments is not supported by the go seam")
				}
				if fl, ok := s.Call.Fun.(*ast.FuncLit); ok {
					r.block(fl.Body)
					r.goBodyYields(fl)
					out = append(out, r.yieldStmt(pos, "go"), &ast.ExprStmt{X: simCall("Go", strLit(r.site(pos)), fl)})
				} else {
					wrapped := &ast.FuncLit{Type: &ast.FuncType{Params: &ast.FieldList{}}, Body: &ast.BlockStmt{List: []ast.Stmt{&ast.ExprStmt{X: s.Call}}}}
					out = append(out, r.yieldStmt(pos, "go"), &ast.ExprStmt{X: simCall("Go", strLit(r.site(pos)), wrapped)})
				}
				r.counts.Go++
				continue
			}
		case *ast.SendStmt:
			nd.yieldBefore, nd.wokeAfter, nd.why = true, true, "send"
			r.scanOwn(s.Chan, &nd)
			r.scanOwn(s.Value, &nd)
		case *ast.AssignStmt:
			for _, e := range s.Rhs {
				r.scanOwn(e, &nd)
			}
			for _, e := range s.Lhs {
				r.scanOwn(e, &nd)
			}
		case *ast.ReturnStmt:
			for _, e := range s.Results {
				r.scanOwn(e, &nd)
			}
			nd.wokeAfter = false
		case *ast.IncDecStmt:
			r.scanOwn(s.X, &nd)
		case *ast.DeclStmt:
			r.scanOwn(s.Decl, &nd)
		case *ast.IfStmt:
			if s.Init != nil {
				r.scanOwn(s.Init, &nd)
			}
			var condNeed need
			r.scanOwn(s.Cond, &condNeed)
			if condNeed.wokeAfter {
				r.errf(pos, "blocking operation in an if condition is not supported")
			}
			hoist := nd.wokeAfter && s.Init != nil
			nd.yieldBefore = nd.yieldBefore || condNeed.yieldBefore
			if nd.why == "" {
				nd.why = condNeed.why
			}
			r.block(s.Body)
			switch e := s.Else.(type) {
			case *ast.BlockStmt:
				r.block(e)
			case *ast.IfStmt:
				// else-if chain: rewrite as a one-element list and put it back
				res := r.stmts([]ast.Stmt{e})
				if len(res) == 1 {
					s.Else = res[0]
				} else {
					s.Else = &ast.BlockStmt{List: res}
				}
			}
			if hoist && r.opt.Yield {
				// `if x := blocking(); cond {…}`  →  `{ yield; x := blocking(); woke; if cond {…} }`
				init := s.Init
				s.Init = nil
				out = append(out, &ast.BlockStmt{List: []ast.Stmt{r.yieldStmt(pos, nd.why), init, r.wokeStmt(pos, nd.why), s}})
				continue
			}
			nd.wokeAfter = false
		case *ast.ForStmt:
			var hd need
			if s.Init != nil {
				r.scanOwn(s.Init, &hd)
			}
			if s.Cond != nil {
				var c need
				r.scanOwn(s.Cond, &c)
				if c.yieldBefore || c.wokeAfter {
					r.errf(pos, "synchronisation operation in a for condition is not supported")
				}
			}
			if s.Post != nil {
				var c need
				r.scanOwn(s.Post, &c)
				if c.yieldBefore || c.wokeAfter {
					r.errf(pos, "synchronisation operation in a for post statement is not supported")
				}
			}
			nd = hd
			nd.wokeAfter = false
			r.block(s.Body)
			if (r.loopYield || r.opt.LoopYieldAll) && r.opt.Yield {
				s.Body.List = append([]ast.Stmt{r.yieldStmt(pos, "loop")}, s.Body.List...)
			}
		case *ast.RangeStmt:
			r.scanOwn(s.X, &nd)
			r.block(s.Body)
			if r.opt.LoopYieldAll && r.opt.Yield {
				s.Body.List = append([]ast.Stmt{r.yieldStmt(pos, "loop")}, s.Body.List...)
			}
			if r.opt.MapOrder {
				if ns := r.mapRange(s); ns != nil {
					out = append(out, ns)
					continue
				}
			}
			if tv, ok := r.p.Info.Types[s.X]; ok && tv.Type != nil {
				if _, isChan := tv.Type.Underlying().(*types.Chan); isChan && r.opt.Yield {
					r.errf(pos, "range over channel is not supported")
				}
			}
		case *ast.SwitchStmt:
			if s.Init != nil {
				r.scanOwn(s.Init, &nd)
			}
			if s.Tag != nil {
				r.scanOwn(s.Tag, &nd)
			}
			for _, c := range s.Body.List {
				cc := c.(*ast.CaseClause)
				for _, e := range cc.List {
					var cn need
					r.scanOwn(e, &cn)
				}
				cc.Body = r.stmts(cc.Body)
			}
		case *ast.TypeSwitchStmt:
			for _, c := range s.Body.List {
				cc := c.(*ast.CaseClause)
				cc.Body = r.stmts(cc.Body)
			}
		case *ast.SelectStmt:
			for _, c := range s.Body.List {
				cc := c.(*ast.CommClause)
				cc.Body = r.stmts(cc.Body)
			}
			if r.opt.Yield && hasDefault(s) {
				// non-blocking select: a scheduling point, no wake-up needed
				nd.yieldBefore, nd.why = true, "select-default"
			}
			// blocking selects are handled by pass B
		case *ast.BlockStmt:
			r.block(s)
		case *ast.LabeledStmt:
			res := r.stmts([]ast.Stmt{s.Stmt})
			if len(res) == 1 {
				s.Stmt = res[0]
			} else {
				// keep the label on the first generated statement
				s.Stmt = res[0]
				out = append(out, s)
				out = append(out, res[1:]...)
				continue
			}
		}
		if !r.opt.Yield {
			nd = need{}
		}
		if nd.yieldBefore {
			out = append(out, r.yieldStmt(pos, nd.why))
		}
		out = append(out, st)
		if nd.wokeAfter {
			out = append(out, r.wokeStmt(pos, nd.why))
		}
	}
	return out
}

// mapRange rewrites `for k, v := range m {…}` over a map into iteration over simrt.MapKeys.
func (r *rewriter) mapRange(s *ast.RangeStmt) ast.Stmt {
	tv, ok := r.p.Info.Types[s.X]
	if !ok || tv.Type == nil {
		return nil
	}
	if _, isMap := tv.Type.Underlying().(*types.Map); !isMap {
		return nil
	}
	if s.Tok != token.DEFINE && (s.Key != nil || s.Value != nil) {
		r.errf(s.Pos(), "range over map with '=' assignment is not supported by the map-order seam")
		return nil
	}
	r.counts.Map++
	site := strLit(r.site(s.Pos()))
	mIdent := ast.NewIdent(fmt.Sprintf("_simM%d", r.counts.Map))
	kIdent := ast.NewIdent(fmt.Sprintf("_simK%d", r.counts.Map))
	keyName := kIdent
	blankKey := s.Key == nil
	if id, ok := s.Key.(*ast.Ident); ok && id.Name != "_" {
		keyName = id
	} else if s.Key != nil {
		if id, ok := s.Key.(*ast.Ident); !ok || id.Name != "_" {
			r.errf(s.Pos(), "range key is not an identifier")
			return nil
		}
		blankKey = true
	}
	_ = blankKey
	var pre []ast.Stmt
	if s.Value != nil {
		vid, ok := s.Value.(*ast.Ident)
		if !ok {
			r.errf(s.Pos(), "range value is not an identifier")
			return nil
		}
		okIdent := ast.NewIdent(fmt.Sprintf("_simOk%d", r.counts.Map))
		valName := vid
		if vid.Name == "_" {
			valName = ast.NewIdent("_")
		}
		// v, ok := m[k]; if !ok { continue }   (an entry deleted during iteration is not visited)
		pre = append(pre,
			&ast.AssignStmt{Lhs: []ast.Expr{valName, okIdent}, Tok: token.DEFINE, Rhs: []ast.Expr{&ast.IndexExpr{X: mIdent, Index: keyName}}},
			&ast.IfStmt{Cond: &ast.UnaryExpr{Op: token.NOT, X: okIdent}, Body: &ast.BlockStmt{List: []ast.Stmt{&ast.BranchStmt{Tok: token.CONTINUE}}}},
		)
		if vid.Name == "_" {
			pre[0] = &ast.AssignStmt{Lhs: []ast.Expr{ast.NewIdent("_"), okIdent}, Tok: token.DEFINE, Rhs: []ast.Expr{&ast.IndexExpr{X: mIdent, Index: keyName}}}
		}
	} else {
		okIdent := ast.NewIdent(fmt.Sprintf("_simOk%d", r.counts.Map))
		pre = append(pre,
			&ast.AssignStmt{Lhs: []ast.Expr{ast.NewIdent("_"), okIdent}, Tok: token.DEFINE, Rhs: []ast.Expr{&ast.IndexExpr{X: mIdent, Index: keyName}}},
			&ast.IfStmt{Cond: &ast.UnaryExpr{Op: token.NOT, X: okIdent}, Body: &ast.BlockStmt{List: []ast.Stmt{&ast.BranchStmt{Tok: token.CONTINUE}}}},
		)
	}
	body := &ast.BlockStmt{List: append(pre, s.Body.List...)}
	loop := &ast.RangeStmt{Key: ast.NewIdent("_"), Value: keyName, Tok: token.DEFINE, X: simCall("MapKeys", mIdent, site), Body: body}
	return &ast.BlockStmt{List: []ast.Stmt{
		&ast.AssignStmt{Lhs: []ast.Expr{mIdent}, Tok: token.DEFINE, Rhs: []ast.Expr{s.X}},
		loop,
	}}
}

// File instruments one file of the package and returns the new source.
func (p *Package) File(path string, opt Options) ([]byte, Counts, error) {
	af := p.Files[path]
	if af == nil {
		return nil, Counts{}, fmt.Errorf("%s is not part of the package", path)
	}
	r := &rewriter{p: p, opt: opt, file: path, base: filepath.Base(path)}
	for _, d := range af.Decls {
		if fd, ok := d.(*ast.FuncDecl); ok && fd.Body != nil {
			r.loopYield = false
			for _, n := range opt.LoopYieldFuncs {
				if fd.Name.Name == n {
					r.loopYield = true
				}
			}
			r.block(fd.Body)
			r.loopYield = false
		}
		if gd, ok := d.(*ast.GenDecl); ok {
			// function literals in package-level var initialisers
			var ignore need
			r.scanOwn(gd, &ignore)
		}
	}
	if len(r.errs) > 0 {
		return nil, r.counts, fmt.Errorf("unsupported constructs:\n  %s", strings.Join(r.errs, "\n  "))
	}
	addImport(af, SimrtPath)
	if r.keepMapsImport {
		// var _ = maps.Clone[map[int]int]
		af.Decls = append(af.Decls, &ast.GenDecl{Tok: token.VAR, Specs: []ast.Spec{&ast.ValueSpec{Names: []*ast.Ident{ast.NewIdent("_")},
			Values: []ast.Expr{&ast.IndexExpr{X: &ast.SelectorExpr{X: ast.NewIdent("maps"), Sel: ast.NewIdent("Clone")},
				Index: &ast.MapType{Key: ast.NewIdent("int"), Value: ast.NewIdent("int")}}}}}})
	}
	// drop comments: positions of generated nodes would misplace them. Build
	// constraints are re-emitted; any other compiler directive is an error.
	var constraints []string
	for _, cg := range af.Comments {
		for _, c := range cg.List {
			switch {
			case strings.HasPrefix(c.Text, "//go:build ") || strings.HasPrefix(c.Text, "// +build "):
				if c.Pos() < af.Package {
					constraints = append(constraints, c.Text)
				}
			case strings.HasPrefix(c.Text, "//go:") || strings.HasPrefix(c.Text, "//line ") || strings.HasPrefix(c.Text, "//export "):
				return nil, r.counts, fmt.Errorf("%s: compiler directive %q cannot be preserved by the rewriter", r.site(c.Pos()), c.Text)
			}
		}
	}
	af.Comments = nil
	af.Doc = nil
	ast.Inspect(af, func(n ast.Node) bool {
		switch x := n.(type) {
		case *ast.FuncDecl:
			x.Doc = nil
		case *ast.GenDecl:
			x.Doc = nil
		case *ast.Field:
			x.Doc, x.Comment = nil, nil
		case *ast.TypeSpec:
			x.Doc, x.Comment = nil, nil
		case *ast.ValueSpec:
			x.Doc, x.Comment = nil, nil
		case *ast.ImportSpec:
			x.Doc, x.Comment = nil, nil
		}
		return true
	})
	var buf bytes.Buffer
	if err := (&printer.Config{Mode: printer.UseSpaces | printer.TabIndent, Tabwidth: 8}).Fprint(&buf, token.NewFileSet(), stripPos(af)); err != nil {
		return nil, r.counts, err
	}
	src := buf.Bytes()
	if opt.Yield {
		var err error
		var n int
		src, n, err = rewriteSelects(src, r.base)
		if err != nil {
			return nil, r.counts, err
		}
		r.counts.Select = n
	}
	src, err := format.Source(src)
	if err != nil {
		return nil, r.counts, fmt.Errorf("generated source does not parse: %v", err)
	}
	hdr := ""
	for _, c := range constraints {
		hdr += c + "\n"
	}
	if hdr != "" {
		hdr += "\n"
	}
	src = append([]byte(hdr+"// Code generated by /verif/instrument from "+path+"; DO NOT EDIT.\n\n"), src...)
	c := r.counts
	// Seam counts below what the pinned commit has: a kind of seam that vanished altogether leaves the harness blind and
	// is an error; FEWER seams than expected (a change removed one loop over a map, one lock …) is reported as a warning
	// and the check goes on - it must be able to judge such a tree, not refuse it.
	short := func(kind string, got, need int) error {
		if got >= need {
			return nil
		}
		if got == 0 {
			return fmt.Errorf("expected %s seams missing in %s (source refactored?): got 0, need >= %d", kind, path, need)
		}
		Warnings = append(Warnings, fmt.Sprintf("%s: %d %s seams, the pinned commit has %d (source changed; the check goes on with the seams that exist)", path, got, kind, need))
		return nil
	}
	for _, e := range []error{short("pool", c.Pool, opt.MinPool), short("lock", c.Lock, opt.MinLock), short("select", c.Select, opt.MinSelect), short("go", c.Go, opt.MinGo), short("map", c.Map, opt.MinMap)} {
		if e != nil {
			return nil, c, e
		}
	}
	return src, c, nil
}

// stripPos returns the file itself; printing with a fresh FileSet makes the
// printer ignore stale positions (all nodes then format canonically).
func stripPos(f *ast.File) *ast.File { return f }

func addImport(f *ast.File, path string) {
	for _, im := range f.Imports {
		if im.Path.Value == fmt.Sprintf("%q", path) {
			return
		}
	}
	spec := &ast.ImportSpec{Name: ast.NewIdent("simrt"), Path: &ast.BasicLit{Kind: token.STRING, Value: fmt.Sprintf("%q", path)}}
	decl := &ast.GenDecl{Tok: token.IMPORT, Specs: []ast.Spec{spec}}
	use := &ast.GenDecl{Tok: token.VAR, Specs: []ast.Spec{&ast.ValueSpec{Names: []*ast.Ident{ast.NewIdent("_")}, Values: []ast.Expr{&ast.SelectorExpr{X: ast.NewIdent("simrt"), Sel: ast.NewIdent("Active")}}}}}
	f.Decls = append(append([]ast.Decl{decl}, f.Decls...), use)
	f.Imports = append(f.Imports, spec)
}
