package instrument

import (
	"bytes"
	"fmt"
	"go/ast"
	"go/parser"
	"go/printer"
	"go/token"
	"strings"
)

// rewriteSelects is pass B: every select statement without a default clause
// becomes
//
//	{
//		_simC0 := <chan 0>; …            // operands evaluated once, in source order
//		simrt.Yield(site)                 // the scheduler decides when the goroutine enters the select
//		_simDone := false
//		for _, _simI := range simrt.SelectOrder(site, n) {   // tape-chosen poll order; empty when detached
//			switch _simI {
//			case 0: if v, ok, rdy := simrt.TryRecv(_simC0); rdy { _simDone = true; BODY0 }
//			…
//			}
//			if _simDone { break }
//		}
//		if !_simDone {
//			select {                      // nothing ready: block; exactly one waker decides the case
//			case v, ok := <-_simC0: simrt.Woke(site); BODY0
//			…
//			}
//		}
//	}
//
// so that the choice among simultaneously ready cases comes from the tape
// instead of the runtime's unseedable random poll order, and a goroutine woken
// out of the blocking select parks before it touches anything.
//
// The rewrite is textual, one select at a time, innermost first, re-parsing
// after each step. Transformed selects are recognised by their `_simDone`
// guard.
func rewriteSelects(src []byte, base string) ([]byte, int, error) {
	n := 0
	for iter := 0; iter < 500; iter++ {
		fset := token.NewFileSet()
		f, err := parser.ParseFile(fset, base, src, 0)
		if err != nil {
			return nil, n, fmt.Errorf("pass B parse: %v", err)
		}
		target, label := findSelect(f)
		if target == nil {
			return src, n, nil
		}
		if label != "" {
			return nil, n, fmt.Errorf("%s: labelled select is not supported", fset.Position(target.Pos()))
		}
		repl, err := genSelect(fset, target, fmt.Sprintf("%s:%d#%d", base, fset.Position(target.Pos()).Line, n), n)
		if err != nil {
			return nil, n, err
		}
		start := fset.Position(target.Pos()).Offset
		end := fset.Position(target.End()).Offset
		var out bytes.Buffer
		out.Write(src[:start])
		out.WriteString(repl)
		out.Write(src[end:])
		src = out.Bytes()
		n++
	}
	return nil, n, fmt.Errorf("pass B did not converge")
}

// findSelect returns an untransformed blocking select none of whose nested selects is untransformed.
func findSelect(f *ast.File) (*ast.SelectStmt, string) {
	var found *ast.SelectStmt
	var foundLabel string
	var stack []ast.Node
	ast.Inspect(f, func(n ast.Node) bool {
		if n == nil {
			stack = stack[:len(stack)-1]
			return true
		}
		stack = append(stack, n)
		s, ok := n.(*ast.SelectStmt)
		if !ok || hasDefault(s) {
			return true
		}
		// already transformed? parent chain: SelectStmt <- BlockStmt <- IfStmt{Cond: !_simDone}
		if len(stack) >= 3 {
			if ifs, ok := stack[len(stack)-3].(*ast.IfStmt); ok {
				if u, ok := ifs.Cond.(*ast.UnaryExpr); ok && u.Op == token.NOT {
					if id, ok := u.X.(*ast.Ident); ok && strings.HasPrefix(id.Name, "_simDone") {
						return true
					}
				}
			}
		}
		// innermost first: later (deeper) finds overwrite only if nested inside the current one;
		// simplest correct rule: keep the LAST untransformed select in source order that contains no other
		label := ""
		if len(stack) >= 2 {
			if l, ok := stack[len(stack)-2].(*ast.LabeledStmt); ok {
				label = l.Label.Name
			}
		}
		if !containsUntransformed(s) {
			if found == nil {
				found, foundLabel = s, label
			}
		}
		return true
	})
	return found, foundLabel
}

func containsUntransformed(s *ast.SelectStmt) bool {
	res := false
	var stack []ast.Node
	ast.Inspect(s.Body, func(n ast.Node) bool {
		if n == nil {
			stack = stack[:len(stack)-1]
			return true
		}
		stack = append(stack, n)
		in, ok := n.(*ast.SelectStmt)
		if !ok || hasDefault(in) {
			return true
		}
		if len(stack) >= 3 {
			if ifs, ok := stack[len(stack)-3].(*ast.IfStmt); ok {
				if u, ok := ifs.Cond.(*ast.UnaryExpr); ok && u.Op == token.NOT {
					if id, ok := u.X.(*ast.Ident); ok && strings.HasPrefix(id.Name, "_simDone") {
						return true
					}
				}
			}
		}
		res = true
		return true
	})
	return res
}

func nodeStr(fset *token.FileSet, n any) string {
	var b bytes.Buffer
	printer.Fprint(&b, fset, n)
	return b.String()
}

func stmtsStr(fset *token.FileSet, list []ast.Stmt) string {
	var b strings.Builder
	for _, s := range list {
		b.WriteString(nodeStr(fset, s))
		b.WriteString("\n")
	}
	return b.String()
}

// badBranch reports an unlabeled `continue` in a select body that would target
// a loop outside the select (it would bind to the generated poll loop instead).
func badBranch(list []ast.Stmt) bool {
	bad := false
	var walk func(n ast.Node, inLoop bool)
	walk = func(n ast.Node, inLoop bool) {
		if n == nil || bad {
			return
		}
		switch x := n.(type) {
		case *ast.FuncLit:
			return
		case *ast.ForStmt:
			walk(x.Body, true)
			return
		case *ast.RangeStmt:
			walk(x.Body, true)
			return
		case *ast.BranchStmt:
			if x.Tok == token.CONTINUE && x.Label == nil && !inLoop {
				bad = true
			}
			return
		}
		ast.Inspect(n, func(c ast.Node) bool {
			if c == n || c == nil {
				return true
			}
			walk(c, inLoop)
			return false
		})
	}
	for _, s := range list {
		walk(s, false)
	}
	return bad
}

func genSelect(fset *token.FileSet, s *ast.SelectStmt, site string, idx int) (string, error) {
	var hoist, poll, blocking strings.Builder
	n := len(s.Body.List)
	sfx := fmt.Sprintf("%d", idx)
	for i, c := range s.Body.List {
		cc := c.(*ast.CommClause)
		if badBranch(cc.Body) {
			return "", fmt.Errorf("%s: unlabeled continue inside a select body is not supported by the select seam", site)
		}
		body := stmtsStr(fset, cc.Body)
		ch := fmt.Sprintf("_simC%s_%d", sfx, i)
		woke := fmt.Sprintf("simrt.Woke(%q)\n", site+":case"+fmt.Sprint(i))
		switch comm := cc.Comm.(type) {
		case *ast.SendStmt:
			val := fmt.Sprintf("_simV%s_%d", sfx, i)
			fmt.Fprintf(&hoist, "%s := %s\n%s := %s\n", ch, nodeStr(fset, comm.Chan), val, nodeStr(fset, comm.Value))
			fmt.Fprintf(&poll, "case %d:\nif simrt.TrySend(%s, %s) {\n_simDone%s = true\n%s}\n", i, ch, val, sfx, body)
			fmt.Fprintf(&blocking, "case %s <- %s:\n%s%s", ch, val, woke, body)
		case *ast.ExprStmt: // case <-ch:
			u, ok := comm.X.(*ast.UnaryExpr)
			if !ok || u.Op != token.ARROW {
				return "", fmt.Errorf("%s: unexpected comm clause", site)
			}
			fmt.Fprintf(&hoist, "%s := %s\n", ch, nodeStr(fset, u.X))
			fmt.Fprintf(&poll, "case %d:\nif _, _, _simRdy := simrt.TryRecv(%s); _simRdy {\n_simDone%s = true\n%s}\n", i, ch, sfx, body)
			fmt.Fprintf(&blocking, "case <-%s:\n%s%s", ch, woke, body)
		case *ast.AssignStmt:
			if len(comm.Rhs) != 1 {
				return "", fmt.Errorf("%s: unexpected comm clause", site)
			}
			u, ok := comm.Rhs[0].(*ast.UnaryExpr)
			if !ok || u.Op != token.ARROW {
				return "", fmt.Errorf("%s: unexpected comm clause", site)
			}
			fmt.Fprintf(&hoist, "%s := %s\n", ch, nodeStr(fset, u.X))
			lhs := make([]string, len(comm.Lhs))
			for j, l := range comm.Lhs {
				lhs[j] = nodeStr(fset, l)
			}
			if comm.Tok == token.DEFINE {
				v, okv := lhs[0], "_"
				if len(lhs) == 2 {
					okv = lhs[1]
				}
				fmt.Fprintf(&poll, "case %d:\nif %s, %s, _simRdy := simrt.TryRecv(%s); _simRdy {\n_simDone%s = true\n%s}\n", i, v, okv, ch, sfx, body)
				fmt.Fprintf(&blocking, "case %s := <-%s:\n%s%s", strings.Join(lhs, ", "), ch, woke, body)
			} else {
				assign := lhs[0] + " = _simRV"
				okv := "_"
				if len(lhs) == 2 {
					okv = "_simROK"
					assign += "\n" + lhs[1] + " = _simROK"
				}
				fmt.Fprintf(&poll, "case %d:\nif _simRV, %s, _simRdy := simrt.TryRecv(%s); _simRdy {\n_simDone%s = true\n%s\n%s}\n", i, okv, ch, sfx, assign, body)
				fmt.Fprintf(&blocking, "case %s = <-%s:\n%s%s", strings.Join(lhs, ", "), ch, woke, body)
			}
		default:
			return "", fmt.Errorf("%s: unexpected comm clause %T", site, cc.Comm)
		}
	}
	allTerminate := true
	for _, c := range s.Body.List {
		cc := c.(*ast.CommClause)
		if len(cc.Body) == 0 {
			allTerminate = false
			continue
		}
		switch last := cc.Body[len(cc.Body)-1].(type) {
		case *ast.ReturnStmt:
		case *ast.ExprStmt:
			call, ok := last.X.(*ast.CallExpr)
			if id, isId := call.Fun.(*ast.Ident); !ok || !isId || id.Name != "panic" {
				allTerminate = false
			}
		default:
			allTerminate = false
		}
	}
	var out strings.Builder
	out.WriteString("{\n")
	out.WriteString(hoist.String())
	fmt.Fprintf(&out, "simrt.Yield(%q)\n", site)
	fmt.Fprintf(&out, "_simDone%s := false\n", sfx)
	fmt.Fprintf(&out, "for _, _simI := range simrt.SelectOrder(%q, %d) {\nswitch _simI {\n%s}\nif _simDone%s {\nbreak\n}\n}\n", site, n, poll.String(), sfx)
	fmt.Fprintf(&out, "if !_simDone%s {\nselect {\n%s}\n}\n", sfx, blocking.String())
	out.WriteString("}")
	if allTerminate {
		// the original select was a terminating statement; keep the enclosing function well-formed
		out.WriteString("\npanic(\"simrt: unreachable\")")
	}
	return out.String(), nil
}
