// Package vrf is a pure-Go, deterministic STAND-IN for the absent
// pkg/Rust-VRF submodule (cgo + Rust Bandersnatch). It is injected with
// `go build -overlay` by /verif only; it is never part of the shipped tree.
//
// It is a stub: it has the algebra the state-transition function relies on
// (a VRF output depends on the key and the context only; verification needs
// public data only; ring verification checks ring membership) and provides
// NO cryptographic security. Every evidence file lists it under "stub".
//
//	pub            = H("pk"  ‖ sk)
//	out(pub, ctx)  = H("out" ‖ pub ‖ ctx)
//	IETF signature = out ‖ H("tag" ‖ pub ‖ ctx ‖ msg) ‖ 0^32            (96 bytes)
//	ring signature = out ‖ pub ‖ H("rtag" ‖ pub ‖ ctx ‖ msg) ‖ 0…       (784 bytes)
//	commitment     = H("ring" ‖ keys) ‖ 0…                             (144 bytes)
package vrf

import (
	"bytes"
	"crypto/sha256"
	"errors"
	"fmt"
	"os"
)

const (
	pubSize        = 32
	ietfSigSize    = 96
	ringSigSize    = 784
	commitmentSize = 144
)

func h(tag string, parts ...[]byte) []byte {
	d := sha256.New()
	d.Write([]byte(tag))
	for _, p := range parts {
		var l [4]byte
		l[0], l[1], l[2], l[3] = byte(len(p)), byte(len(p)>>8), byte(len(p)>>16), byte(len(p)>>24)
		d.Write(l[:])
		d.Write(p)
	}
	return d.Sum(nil)
}

// GetPublicKeyFromSecret derives the stand-in public key.
func GetPublicKeyFromSecret(secret []byte) ([]byte, error) {
	if len(secret) == 0 {
		return nil, errors.New("vrf stand-in: empty secret")
	}
	return h("pk", secret), nil
}

func output(pub, context []byte) []byte { return h("out", pub, context) }

// IETFSign signs (context, message) with the secret key.
func IETFSign(secret, context, message []byte) ([]byte, error) {
	pub, err := GetPublicKeyFromSecret(secret)
	if err != nil {
		return nil, err
	}
	sig := make([]byte, ietfSigSize)
	copy(sig[0:32], output(pub, context))
	copy(sig[32:64], h("tag", pub, context, message))
	return sig, nil
}

// IETFVerify verifies an IETF signature and returns the VRF output.
func IETFVerify(context, message, signature, publicKey []byte) ([]byte, error) {
	if len(signature) != ietfSigSize {
		return nil, errors.New("vrf stand-in: bad IETF signature size")
	}
	if len(publicKey) != pubSize {
		return nil, errors.New("vrf stand-in: bad public key size")
	}
	if !bytes.Equal(signature[0:32], output(publicKey, context)) ||
		!bytes.Equal(signature[32:64], h("tag", publicKey, context, message)) ||
		!bytes.Equal(signature[64:96], make([]byte, 32)) {
		return nil, errors.New("vrf stand-in: IETF signature verification failed")
	}
	out := make([]byte, 32)
	copy(out, signature[0:32])
	return out, nil
}

// VRFIetfOutput extracts the VRF output of an IETF signature (no verification).
func VRFIetfOutput(signature []byte) ([]byte, error) {
	if len(signature) != ietfSigSize {
		return nil, errors.New("vrf stand-in: bad IETF signature size")
	}
	out := make([]byte, 32)
	copy(out, signature[0:32])
	return out, nil
}

// Handler is a prover bound to a ring and a secret key.
type Handler struct {
	ring   []byte
	secret []byte
	pub    []byte
}

// NewHandler creates a prover.
func NewHandler(ring, secret []byte, ringSize, proverIdx uint) (*Handler, error) {
	if uint(len(ring)) != ringSize*pubSize {
		return nil, errors.New("vrf stand-in: ring size mismatch")
	}
	pub, err := GetPublicKeyFromSecret(secret)
	if err != nil {
		return nil, err
	}
	return &Handler{ring: append([]byte(nil), ring...), secret: append([]byte(nil), secret...), pub: pub}, nil
}

func (hd *Handler) IETFSign(context, message []byte) ([]byte, error) {
	return IETFSign(hd.secret, context, message)
}

func (hd *Handler) VRFIetfOutput(signature []byte) ([]byte, error) { return VRFIetfOutput(signature) }

// RingSign produces a ring signature.
func (hd *Handler) RingSign(context, message []byte) ([]byte, error) {
	return RingSignWithPublic(hd.pub, context, message), nil
}

func (hd *Handler) Free() {}

// RingSignWithPublic is a stand-in-only helper for harness code: with no
// unforgeability in the stub a ring signature is a function of public data.
func RingSignWithPublic(pub, context, message []byte) []byte {
	sig := make([]byte, ringSigSize)
	copy(sig[0:32], output(pub, context))
	copy(sig[32:64], pub)
	copy(sig[64:96], h("rtag", pub, context, message))
	return sig
}

// RingOutput is the VRF output a ring signature by pub over context carries.
func RingOutput(pub, context []byte) []byte { return output(pub, context) }

// Verifier verifies ring signatures against a fixed ring.
type Verifier struct {
	ring [][]byte
	raw  []byte
}

// NewVerifier creates a ring verifier.
func NewVerifier(ring []byte, ringSize uint) (*Verifier, error) {
	if uint(len(ring)) != ringSize*pubSize {
		return nil, errors.New("vrf stand-in: ring size mismatch")
	}
	v := &Verifier{raw: append([]byte(nil), ring...)}
	for i := uint(0); i < ringSize; i++ {
		v.ring = append(v.ring, v.raw[i*pubSize:(i+1)*pubSize])
	}
	return v, nil
}

func (v *Verifier) Free() {}

// GetCommitment returns the stand-in ring commitment.
func (v *Verifier) GetCommitment() ([]byte, error) {
	c := make([]byte, commitmentSize)
	copy(c, h("ring", v.raw))
	return c, nil
}

// RingVerify verifies one ring signature and returns its VRF output.
func (v *Verifier) RingVerify(context, message, signature []byte) ([]byte, error) {
	if len(signature) != ringSigSize {
		return nil, errors.New("vrf stand-in: bad ring signature size")
	}
	pub := signature[32:64]
	member := false
	zero := make([]byte, pubSize)
	for _, k := range v.ring {
		if bytes.Equal(k, pub) && !bytes.Equal(k, zero) {
			member = true
			break
		}
	}
	if !member {
		if os.Getenv("VERIF_VRF_DEBUG") != "" {
			fmt.Fprintf(os.Stderr, "VRFDEBUG signer %x not in ring %x\n", pub[:4], v.ring)
		}
		return nil, errors.New("vrf stand-in: signer not in ring")
	}
	if !bytes.Equal(signature[0:32], output(pub, context)) ||
		!bytes.Equal(signature[64:96], h("rtag", pub, context, message)) {
		if os.Getenv("VERIF_VRF_DEBUG") != "" {
			fmt.Fprintf(os.Stderr, "VRFDEBUG verification failed pub %x ctx %x\n", pub[:4], context)
		}
		return nil, errors.New("vrf stand-in: ring signature verification failed")
	}
	for _, b := range signature[96:] {
		if b != 0 {
			return nil, errors.New("vrf stand-in: ring signature padding not zero")
		}
	}
	out := make([]byte, 32)
	copy(out, signature[0:32])
	return out, nil
}

// VerifyItem is one element of a batch verification.
type VerifyItem struct {
	Context   []byte
	Message   []byte
	Signature []byte
}

// VerifyResult is the outcome for one batch element.
type VerifyResult struct {
	Output []byte
	Error  error
}

// RingVerifyBatch verifies several ring signatures.
func (v *Verifier) RingVerifyBatch(items []VerifyItem) ([]VerifyResult, error) {
	res := make([]VerifyResult, len(items))
	for i, it := range items {
		out, err := v.RingVerify(it.Context, it.Message, it.Signature)
		res[i] = VerifyResult{Output: out, Error: err}
	}
	return res, nil
}
